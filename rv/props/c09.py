"""C09 Computations never modify their arguments; results do not depend on call history."""

from __future__ import annotations

import glob
import importlib
import io
import itertools
import json
import os
import subprocess
import sys
import tempfile
import time

import numpy as np
import scipp as sc

from rv.ctx import Ctx
from rv.mutmon import MutationMonitor
from rv.snap import describe, fp
from rv.trace import Tracer

ID = 'C09'
LEVEL = 'exploration'
RULE = (
    'oracle A (mutation): every function/method of the computational modules is observed through its code '
    'object; at the outermost observed frame all argument objects are fingerprinted bit-exactly at entry and at '
    'return. Workloads: (1) the hostile workloads of the other property modules re-run with this monitor riding '
    'along, (2) an aliasing grid: entry points called with arguments already in the unit/dtype the function '
    'converts to (so internal copy=False conversions alias), as plain arrays and as slices of '
    'larger caller-owned arrays, (2b) a value grid: every computational entry point called with caller-owned '
    'arguments that are NOT in canonical form in every way the code normalises / sorts / clips / wraps / rescales '
    '(vectors of any length and direction, unsorted / reversed arrays, windows in any order or beyond the data, '
    'angles beyond one turn, negative frequencies and frequencies in other units, swapped min/max, far-away '
    'positions, zero / non-finite / masked values), each facet a forced class, each argument as a plain object, as a '
    'contiguous slice (scalars: a 0-d element) and as a strided slice of a larger caller-owned buffer whose '
    'fingerprint is compared as well, (3) thorough only: the repository test-suite with the monitor armed. '
    'oracle B (history): for each family of factories/lookups a pristine reference is taken, then ALL sequences '
    'of length <= 3 over {call factory i, mutate the k-th earlier result through its public surface} are '
    'enumerated and after each sequence every factory must still return its pristine value. '
    'distinct = (function, argument layout) for A, sequences for B'
)
ASSUMPTIONS = [
    'file-like objects and explicitly documented sinks/self-mutators (builders add_*, __init__, setters) are exempt',
    'the history oracle covers the object kinds the property names: graph factories, model and builder '
    'combinators, bundled-table lookups; persistent sharing inside FrameSequence is reported, not judged',
]
REUSE = ['c01', 'c02', 'c03', 'c04', 'c05', 'c06', 'c07', 'c08', 'c10', 'c11', 'c12', 'c13', 'c14', 'c15', 'c16',
         'c17', 'c18', 'c19', 'c20']
try:
    import matplotlib

    matplotlib.use('Agg')
    _HAVE_MPL = True
except Exception:  # noqa: BLE001
    _HAVE_MPL = False


def _close_fig(res):
    import matplotlib.pyplot as plt

    plt.close('all')
    return res


HISTORY_FAMILIES = ['graphs', 'atoms', 'models', 'cif', 'frames']
PYTEST_DIRS = ['tests/conversion', 'tests/convert_test.py', 'tests/beamline_components_test.py', 'tests/chopper',
               'tests/tof', 'tests/peaks', 'tests/absorption', 'tests/io', 'tests/atoms', 'tests/metadata']


# =============================================================== oracle A ===
def make_monitor(ctx, origin):
    def report(kind, what, case, **keys):
        ctx.violation(kind, what, dict(case, workload=origin['v']), **keys)
    mm = MutationMonitor(report)
    mm.install()
    return mm


def reuse_shard(ctx, shard):
    """Re-run the first shards of another property's quick workload under the mutation monitor."""
    origin = {'v': 'reuse:' + shard['module']}
    mm = make_monitor(ctx, origin)
    try:
        try:
            mod = importlib.import_module('rv.props.' + shard['module'])
        except Exception as e:  # noqa: BLE001
            ctx.count('reuse module unavailable: ' + shard['module'])
            ctx.extra.setdefault('unavailable', []).append(f'{shard["module"]}: {e}')
            return
        plans = mod.plan('quick', shard['seed'])
        todo = plans[: shard.get('n_sub', 1)]
        for i, sh in enumerate(todo):
            sub = dict(sh, tier='quick', seed=shard['seed'], index=i)
            scratch = Ctx(shard['module'], 'quick', shard['seed'], sub)
            e0, j0 = mm.events, mm.judged
            try:
                mod.run(sub, scratch)
            except Exception as e:  # noqa: BLE001
                ctx.count('reuse workload crashed: ' + shard['module'])
                ctx.extra.setdefault('crashed', []).append(f'{shard["module"]}: {type(e).__name__}: {e}')
            ctx.event('mutation_monitor.judged_calls', mm.judged - j0)
            ctx.event('mutation_monitor.observed_calls', mm.events - e0)
            ctx.case(('reuse', shard['module'], i), n=max(1, mm.judged - j0))
        for qn in mm.reached:
            ctx.classes.add('reached:' + qn)
        ctx.extra['functions_armed'] = len(mm.functions)
    finally:
        mm.uninstall()


def _views(rng, values, unit, dtype, dims=('x',)):
    """The same logical array as: plain, a slice of a larger caller-owned array, a strided slice."""
    values = np.asarray(values)
    out = []
    plain = sc.array(dims=list(dims), values=values, unit=unit, dtype=dtype)
    out.append(('plain', plain, None))
    pad = 3
    big = np.concatenate([np.full((pad,) + values.shape[1:], 7, dtype=values.dtype), values,
                          np.full((pad,) + values.shape[1:], 9, dtype=values.dtype)])
    owner = sc.array(dims=list(dims), values=big, unit=unit, dtype=dtype)
    out.append(('slice', owner[dims[0], pad:pad + len(values)], owner))
    return out


def alias_grid(ctx, shard):
    """Arguments already in the unit and dtype the function converts to."""
    import scippneutron as scn
    from scippneutron import peaks
    from scippneutron.absorption import Cylinder, Material, compute_transmission_map
    from scippneutron.atoms import ScatteringParams
    from scippneutron.chopper import DiskChopper
    from scippneutron.chopper import filtering
    from scippneutron.conversion import beamline as KB
    from scippneutron.conversion import tof as KT
    from scippneutron.io import cif, save_xye
    from scippneutron.tof import chopper_cascade as CC

    origin = {'v': 'alias_grid'}
    mm = make_monitor(ctx, origin)
    rng = np.random.Generator(np.random.PCG64([shard['seed'], shard['index'], 9]))
    tr = Tracer()
    n = 6

    def call(label, f, owners=()):
        before = [fp(o) for o in owners if o is not None]
        j0 = mm.judged
        try:
            f()
        except Exception as e:  # noqa: BLE001
            ctx.count(f'alias case raised: {label}: {type(e).__name__}')
        after = [fp(o) for o in owners if o is not None]
        # the part of a caller-owned buffer *outside* the slice that was passed must not change either
        if before != after:
            ctx.violation('owner_buffer_modified', f'{label}: a caller-owned object reachable from the call (owner of a sliced argument, or handed to an earlier builder call) changed',
                          {'label': label, 'workload': 'alias_grid'}, function=label)
        ctx.event('alias_case')
        ctx.case(('alias', label), n=max(1, mm.judged - j0))

    try:
        with tr:
            for rep in range(shard['reps']):
                for dt in ('float64', 'float32'):
                    # ---- gravity: beams in m, gravity in m/s^2  => the internal wavelength unit is m
                    b1 = sc.vector([0.0, 0.0, 10.0], unit='m')
                    g = sc.vector([0.0, -9.80665, 0.0], unit='m/s^2')
                    det = rng.normal(size=(n, 3)) + [0, 0.2, 4]
                    for lbl_b, b2, own_b in [('plain', sc.vectors(dims=['x'], values=det, unit='m'), None)] + [
                            ('slice', (ob := sc.vectors(dims=['x'], values=np.vstack([det, det]), unit='m'))['x', 2:2 + n], ob)]:
                        for lbl, lam, own in _views(rng, rng.uniform(1, 10, size=n) * 1e-10, 'm', dt):
                            for tilt in (0.0, 0.3):
                                bb = b1 if tilt == 0 else sc.vector([0.0, 10 * np.sin(tilt), 10 * np.cos(tilt)], unit='m')
                                call(f'scattering_angles_with_gravity[{dt},{lbl},{lbl_b},tilt={tilt}]',
                                     lambda bb=bb, b2=b2, lam=lam: KB.scattering_angles_with_gravity(
                                         incident_beam=bb, scattered_beam=b2, wavelength=lam, gravity=g), (own, own_b))
                            call(f'scattering_angle_in_yz_plane[{dt},{lbl},{lbl_b}]',
                                 lambda b2=b2, lam=lam: KB.scattering_angle_in_yz_plane(
                                     incident_beam=b1, scattered_beam=b2, wavelength=lam, gravity=g), (own, own_b))
                        call(f'two_theta[{lbl_b}]', lambda b2=b2: KB.two_theta(incident_beam=b2, scattered_beam=b2),
                             (own_b,))
                        call(f'L2[{lbl_b}]', lambda b2=b2: KB.L2(scattered_beam=b2), (own_b,))
                    # binned wavelength in the internal unit
                    from rv import operands as ops
                    sizes = rng.integers(0, 4, size=n)
                    lamb = ops.make_binned((rng.uniform(1, 10, size=int(sizes.sum())) * 1e-10).astype(dt), sizes,
                                           ['x'], (n,), 'm', dtype=dt)
                    call(f'scattering_angles_with_gravity[{dt},binned]',
                         lambda: KB.scattering_angles_with_gravity(
                             incident_beam=b1, scattered_beam=sc.vectors(dims=['x'], values=det, unit='m'),
                             wavelength=lamb, gravity=g))
                    # ---- tof kernels with operands in the unit of the folded constant
                    for lbl, tof, own in _views(rng, rng.uniform(1e3, 1e4, size=n), 'us', dt):
                        L = sc.array(dims=['x'], values=rng.uniform(10, 20, size=n), unit='m', dtype=dt)
                        tt = sc.array(dims=['x'], values=rng.uniform(0.1, 3, size=n), unit='rad', dtype=dt)
                        E = sc.array(dims=['x'], values=rng.uniform(10, 20, size=n), unit='meV', dtype=dt)
                        call(f'wavelength_from_tof[{dt},{lbl}]', lambda: KT.wavelength_from_tof(tof=tof, Ltotal=L), (own,))
                        call(f'dspacing_from_tof[{dt},{lbl}]', lambda: KT.dspacing_from_tof(tof=tof, Ltotal=L, two_theta=tt), (own,))
                        call(f'energy_from_tof[{dt},{lbl}]', lambda: KT.energy_from_tof(tof=tof, Ltotal=L), (own,))
                        call(f'energy_transfer_direct[{dt},{lbl}]',
                             lambda: KT.energy_transfer_direct_from_tof(tof=tof * 10, L1=L, L2=L, incident_energy=E), (own,))
                        call(f'energy_transfer_indirect[{dt},{lbl}]',
                             lambda: KT.energy_transfer_indirect_from_tof(tof=tof * 10, L1=L, L2=L, final_energy=E), (own,))
                    for lbl, lam, own in _views(rng, rng.uniform(1, 10, size=n), 'angstrom', dt):
                        tt = sc.array(dims=['x'], values=rng.uniform(0.1, 3, size=n), unit='rad', dtype=dt)
                        call(f'energy_from_wavelength[{dt},{lbl}]', lambda: KT.energy_from_wavelength(wavelength=lam), (own,))
                        call(f'Q_from_wavelength[{dt},{lbl}]', lambda: KT.Q_from_wavelength(wavelength=lam, two_theta=tt), (own,))
                        call(f'dspacing_from_wavelength[{dt},{lbl}]', lambda: KT.dspacing_from_wavelength(wavelength=lam, two_theta=tt), (own,))
                        Q = KT.Q_from_wavelength(wavelength=lam, two_theta=tt).copy()
                        call(f'wavelength_from_Q[{dt},{lbl}]', lambda: KT.wavelength_from_Q(Q=Q, two_theta=tt))
                        call(f'propagate_times[{dt},{lbl}]', lambda: CC.propagate_times(
                            sc.array(dims=['x'], values=rng.uniform(0, 1e-3, size=n), unit='s', dtype=dt), lam,
                            sc.scalar(10.0, unit='m')), (own,))
                    for lbl, en, own in _views(rng, rng.uniform(1, 100, size=n), 'meV', dt):
                        tt = sc.array(dims=['x'], values=rng.uniform(0.1, 3, size=n), unit='rad', dtype=dt)
                        call(f'wavelength_from_energy[{dt},{lbl}]', lambda: KT.wavelength_from_energy(energy=en), (own,))
                        call(f'dspacing_from_energy[{dt},{lbl}]', lambda: KT.dspacing_from_energy(energy=en, two_theta=tt), (own,))
                # ---- chopper cascade: Subframe keeps time in s / wavelength in angstrom without copying
                t = sc.array(dims=['vertex'], values=[0.0, 3e-3, 3e-3, 0.0], unit='s')
                w = sc.array(dims=['vertex'], values=[1.0, 1.0, 8.0, 8.0], unit='angstrom')
                fr = CC.Frame(distance=sc.scalar(0.0, unit='m'), subframes=[CC.Subframe(time=t, wavelength=w)])
                ch = CC.Chopper(distance=sc.scalar(8.0, unit='m'),
                                time_open=sc.array(dims=['cutout'], values=[5e-3, 15e-3], unit='s'),
                                time_close=sc.array(dims=['cutout'], values=[9e-3, 20e-3], unit='s'))
                call('Frame.chop', lambda: fr.chop(ch))
                call('Frame.propagate_to', lambda: fr.propagate_to(sc.scalar(20.0, unit='m')))
                chopped = fr.chop(ch)
                call('Frame.bounds', lambda: chopped.bounds())
                call('Frame.subbounds', lambda: chopped.subbounds())
                fs = CC.FrameSequence.from_source_pulse(time_min=sc.scalar(0.0, unit='s'), time_max=sc.scalar(3e-3, unit='s'),
                                                        wavelength_min=sc.scalar(1.0, unit='angstrom'),
                                                        wavelength_max=sc.scalar(8.0, unit='angstrom'))
                call('FrameSequence.chop', lambda: fs.chop([ch]))
                call('FrameSequence.propagate_to', lambda: fs.propagate_to(sc.scalar(30.0, unit='m')))
                call('FrameSequence.__getitem__', lambda: fs.chop([ch])[sc.scalar(12.0, unit='m')])
                call('Chopper.__getitem__', lambda: ch['cutout', 0:1])
                call('Chopper.__getitem__[int]', lambda: fr.chop(ch['cutout', 1:2]))
                if _HAVE_MPL:
                    seq = fs.chop([ch]).propagate_to(sc.scalar(30.0, unit='m'))
                    call('FrameSequence.acceptance_diagram', lambda: _close_fig(seq.acceptance_diagram()), (seq,))
                    call('FrameSequence.draw', lambda: _close_fig(seq.draw()), (seq,))
                # ---- disk chopper with angles already in rad float64
                dc = DiskChopper(axle_position=sc.vector([0, 0, 8.0], unit='m'), frequency=sc.scalar(14.0, unit='Hz'),
                                 beam_position=sc.scalar(0.0, unit='rad'), phase=sc.scalar(0.5, unit='rad'),
                                 slit_begin=sc.array(dims=['slit'], values=[0.0, 2.0], unit='rad'),
                                 slit_end=sc.array(dims=['slit'], values=[1.0, 3.0], unit='rad'))
                pf = sc.scalar(14.0, unit='Hz')
                call('DiskChopper.time_offset_open', lambda: dc.time_offset_open(pulse_frequency=pf))
                call('DiskChopper.time_offset_close', lambda: dc.time_offset_close(pulse_frequency=pf))
                call('DiskChopper.open_duration', lambda: dc.open_duration(pulse_frequency=pf))
                call('Chopper.from_disk_chopper', lambda: CC.Chopper.from_disk_chopper(dc, pulse_frequency=pf, npulses=2))
                # ---- peaks
                x = sc.linspace('x', 0.0, 10.0, 200, unit='angstrom')
                y = 5 * sc.exp(-((x - sc.scalar(4.0, unit='angstrom')) / sc.scalar(0.3, unit='angstrom')) ** 2) + sc.scalar(1.0)
                noise = sc.array(dims=['x'], values=rng.normal(size=200) * 0.05)
                da = sc.DataArray((y + noise), coords={'x': x})
                da.variances = np.full(200, 0.05**2)
                est = sc.array(dims=['x'], values=[4.0], unit='angstrom')
                res_box = {}
                call('fit_peaks', lambda: res_box.setdefault('r', peaks.fit_peaks(
                    da, peak_estimates=est, windows=sc.scalar(2.0, unit='angstrom'), background='linear', peak='gaussian')))
                if 'r' in res_box:
                    nv = sc.DataArray(sc.values(da.data), coords={'x': x})
                    call('remove_peaks', lambda: peaks.remove_peaks(nv, res_box['r']))
                gm = peaks.model.GaussianModel(prefix='g_')
                pm = peaks.model.PolynomialModel(degree=2, prefix='p_')
                gp = {'g_amplitude': sc.scalar(2.0), 'g_loc': sc.scalar(4.0, unit='angstrom'), 'g_scale': sc.scalar(0.3, unit='angstrom')}
                pp = {'p_a0': sc.scalar(1.0, unit='1/angstrom'), 'p_a1': sc.scalar(0.1, unit='1/angstrom^2'), 'p_a2': sc.scalar(0.01, unit='1/angstrom^3')}
                call('GaussianModel.__call__', lambda: gm(x, **gp))
                call('PolynomialModel.__call__', lambda: pm(x, **pp))
                call('CompositeModel.__call__', lambda: (gm + pm)(x, **gp, **pp))
                call('Model.guess', lambda: gm.guess(da))
                call('Model.fwhm', lambda: gm.fwhm(gp))
                # ---- absorption
                cyl = Cylinder(symmetry_line=sc.vector([0, 1.0, 0]), center_of_base=sc.vector([0, -0.5, 0], unit='cm'),
                               radius=sc.scalar(1.0, unit='cm'), height=sc.scalar(1.0, unit='cm'))
                start = sc.vectors(dims=['x'], values=rng.normal(size=(n, 3)) * 0.2, unit='cm')
                direction = sc.vectors(dims=['x'], values=(lambda v: v / np.linalg.norm(v, axis=1, keepdims=True))(rng.normal(size=(n, 3))))
                call('Cylinder.beam_intersection', lambda: cyl.beam_intersection(start, direction))
                call('Cylinder.quadrature', lambda: cyl.quadrature('cheap'))
                mat = Material(scattering_params=ScatteringParams.for_isotope('V'), effective_sample_number_density=sc.scalar(0.07, unit='1/angstrom^3'))
                wl = sc.linspace('wavelength', 0.5, 5.0, 4, unit='angstrom')
                call('Material.attenuation_coefficient', lambda: mat.attenuation_coefficient(wl))
                dets = sc.vectors(dims=['x'], values=rng.normal(size=(n, 3)) * 100, unit='cm')
                call('compute_transmission_map', lambda: compute_transmission_map(
                    cyl, mat, beam_direction=sc.vector([0, 0, 1.0]), wavelength=wl, detector_position=dets, quadrature_kind='cheap'))
                # ---- filtering
                tcoord = sc.arange('time', 50.0, unit='s')
                lvl = np.repeat([1.0, 5.0, 2.0, 2.0, 7.0], 10) + rng.normal(size=50) * 1e-4
                sig = sc.DataArray(sc.array(dims=['time'], values=lvl, unit='Hz'), coords={'time': tcoord})
                box = {}
                call('find_plateaus', lambda: box.setdefault('p', filtering.find_plateaus(sig, atol=sc.scalar(0.01, unit='Hz/s'), min_n_points=3)))
                if 'p' in box:
                    call('collapse_plateaus', lambda: box.setdefault('c', filtering.collapse_plateaus(box['p'])))
                if 'c' in box:
                    call('filter_in_phase', lambda: filtering.filter_in_phase(box['c'], reference=sc.scalar(1.0, unit='Hz'), rtol=sc.scalar(0.05)))
                # ---- io: CIF / XYE writers must not touch the data they are given
                pd = sc.DataArray(sc.array(dims=['tof'], values=rng.random(5), variances=rng.random(5) * 0.01),
                                  coords={'tof': sc.arange('tof', 5.0, unit='us')})
                call('CIF.with_reduced_powder_data+save', lambda: cif.CIF('a').with_reduced_powder_data(pd).save(io.StringIO()))
                call('save_xye', lambda: save_xye(io.StringIO(), pd))
                chunk = cif.Chunk({'a.b': 1, 'a.c': 'text'}, comment='chunk comment')
                loop = cif.Loop({'l.x': sc.arange('i', 3.0, unit='m'), 'l.y': sc.arange('i', 3.0)}, comment='loop comment')
                call('Block.add(Chunk, comment)', lambda: cif.Block('holder').add(chunk, comment='another comment'))
                call('Block.add(Loop, comment)', lambda: cif.Block('holder').add(loop, comment='another comment'))
                call('Block(name, [Chunk, Loop])', lambda: cif.save_cif(io.StringIO(), cif.Block('holder', [chunk, loop], comment='c')))
                call('save_cif([Block, Block])', lambda: cif.save_cif(io.StringIO(), [cif.Block('b1', [chunk]), cif.Block('b2', [loop])], comment='file'))
                blk = cif.Block('b', [{'x.y': sc.scalar(1.5, variance=0.01, unit='m')}])
                call('Block.write', lambda: cif.save_cif(io.StringIO(), blk))
                # ---- SQW writer: caller-owned metadata already in canonical unit/dtype, every byte order
                from scippneutron.io.sqw import EnergyMode, Sqw, SqwIXExperiment, SqwIXSample
                npx = 5
                for order in ('native', 'little', 'big'):
                    exps = [SqwIXExperiment(
                        run_id=r, efix=sc.scalar(1.5 + r, unit='meV'), emode=EnergyMode.direct,
                        en=sc.array(dims=['energy_transfer'], values=[1.0, 2.5, 4.0], unit='meV'),
                        psi=sc.scalar(0.3, unit='rad'), u=sc.vector([0.0, 1.0, 0.5]), v=sc.vector([1.0, 1.0, 0.0]),
                        omega=sc.scalar(0.1, unit='rad'), dpsi=sc.scalar(0.2, unit='rad'), gl=sc.scalar(0.3, unit='rad'),
                        gs=sc.scalar(-0.4, unit='rad'), filename=f'run{r}.nxspe', filepath='/data') for r in range(2)]
                    pix = sc.DataArray(
                        sc.array(dims=['obs'], values=rng.random(npx), variances=rng.random(npx), unit='count'),
                        coords={**{f'u{i}': sc.array(dims=['obs'], values=rng.random(npx), unit='1/angstrom') for i in (1, 2, 3)},
                                'u4': sc.array(dims=['obs'], values=rng.random(npx), unit='meV'),
                                **{k: sc.array(dims=['obs'], values=np.arange(npx) % 2, unit=None, dtype='int64')
                                   for k in ('idet', 'irun', 'ien')}})
                    sample = SqwIXSample(name='s', lattice_spacing=sc.vector([2.0, 3.0, 4.0], unit='angstrom'),
                                         lattice_angle=sc.vector([90.0, 90.0, 120.0], unit='deg'))

                    def build_sqw(order=order, exps=exps, pix=pix, sample=sample):
                        b = Sqw.build(io.BytesIO(), byteorder=order)
                        b = b.add_pixel_data(pix, experiments=exps).add_default_sample(sample)
                        b.create()
                    call(f'SqwBuilder.create[{order}]', build_sqw, (exps, pix, sample))
                # ---- convert with positions
                cda = sc.DataArray(sc.ones(dims=['x', 'tof'], shape=[n, 4]), coords={
                    'tof': sc.linspace('tof', 1e3, 1e4, 4, unit='us'),
                    'position': sc.vectors(dims=['x'], values=det, unit='m'),
                    'source_position': sc.vector([0, 0, -10.0], unit='m'), 'sample_position': sc.vector([0, 0, 0.0], unit='m')})
                for tgt in ('wavelength', 'dspacing', 'Q', 'energy'):
                    call(f'convert[{tgt}]', lambda tgt=tgt: scn.convert(cda, 'tof', tgt, scatter=True))
                call('two_theta(da)', lambda: scn.two_theta(cda))
        for qn in mm.reached:
            ctx.classes.add('reached:' + qn)
        ctx.event('mutation_monitor.judged_calls', mm.judged)
        ctx.event('mutation_monitor.observed_calls', mm.events)
        ctx.extra['functions_armed'] = len(mm.functions)
    finally:
        mm.uninstall()


# ================================================== oracle A: value axis ===
# The alias grid above varies unit / dtype / view-ness.  Whether a function writes into an argument can
# equally depend on the argument's VALUE: code that normalises, sorts, clips, wraps, takes the magnitude of
# or rescales an input has a branch (or a fast path) for inputs that are already in canonical form, and the
# write -- if there is one -- only happens for inputs that are not.  This grid calls every computational
# entry point with caller-owned arguments that are NOT in canonical form in every way the entry point (or a
# reasonable re-implementation of it) canonicalises: vectors of any length and direction, unsorted and
# reversed arrays, windows in any order / beyond the data range, angles beyond one turn and negative,
# negative frequencies and frequencies in other units, swapped min/max, positions far away and in other
# units, degenerate geometry.  Every argument is handed over once as a plain variable and once as a slice
# (for scalars: a 0-d element) of a larger caller-owned buffer.  The only expectation is the property
# itself: whatever the call does (including raising), every caller-owned object is bit-identical afterwards.
_N = 5


def _vec(v, unit='m'):
    return sc.vector(np.asarray(v, dtype=float), unit=unit)


def _vecs(v, unit='m', dim='x'):
    return sc.vectors(dims=[dim], values=np.asarray(v, dtype=float), unit=unit)


def _arr(v, unit, dim='x', dtype='float64'):
    return sc.array(dims=[dim], values=np.asarray(v), unit=unit, dtype=dtype)


def _s(v, unit):
    return sc.scalar(float(v), unit=unit)


def _lay(layout, obj):
    """obj as a caller-owned plain object, or as a slice / 0-d element of a larger caller-owned buffer."""
    if layout == 'plain':
        return obj.copy(), None
    if obj.ndim == 0:
        owner = sc.concat([obj, obj, obj], 'rv_buffer').copy()
        return owner['rv_buffer', 1], owner
    d = obj.dims[0]
    if layout == 'strided':  # every second element of a caller-owned buffer twice as long
        try:
            rest = [x for x in obj.dims if x != d]
            owner = sc.concat([obj, obj], 'rv_k').transpose([d, 'rv_k', *rest]).copy().flatten(dims=[d, 'rv_k'], to=d)
            return owner[d, 0::2], owner
        except Exception:  # noqa: BLE001  (layout not constructible for this kind of object: contiguous slice)
            pass
    pad = sc.concat([obj[d, 0:1], obj[d, 0:1]], d)
    owner = sc.concat([pad, obj, pad], d).copy()
    return owner[d, 2:2 + obj.sizes[d]], owner


def _scaled_rows(rng, scales):
    return rng.normal(size=(len(scales), 3)) * np.asarray(scales, dtype=float)[:, None]


def _value_cases():  # noqa: C901
    """[(entry point, non-canonical facet, build(P, A, O, rng) -> thunk)].  ``A(var)`` places a caller-owned
    Variable / DataArray in the current layout, ``O(obj)`` registers any other caller-owned object."""
    cases = []

    def case(entry, facet):
        def deco(f):
            cases.append((entry, facet, f))
            return f
        return deco

    g_std = [0.0, -9.80665, 0.0]
    gravities = {  # everything the gravity kernels do with `gravity` goes through gravity / |gravity|
        'gravity-unit-length': [0.0, -1.0, 0.0],
        'gravity-long': [0.0, -9806.65, 0.0],
        'gravity-short': [0.0, -1e-3, 0.0],
        'gravity-off-axis': [-3.0, -9.0, 0.0],   # still orthogonal to a beam along z
    }
    far = [1e-3, 1.0, 25.0, 1e3, 1e6]

    # ------------------------------------------------------------ conversion.beamline
    @case('L1', 'beam-any-length')
    def _(P, A, O, rng):
        b = A(_vec([0.3, -0.2, 25.0]))
        return lambda: P.KB.L1(incident_beam=b)

    @case('L2', 'beams-any-length')
    def _(P, A, O, rng):
        b = A(_vecs(_scaled_rows(rng, far)))
        return lambda: P.KB.L2(scattered_beam=b)

    @case('straight_incident_beam', 'positions-far-apart')
    def _(P, A, O, rng):
        src, smp = A(_vec([0.0, 0.0, -25e3], 'mm')), A(_vec([0.1, 0.2, 0.3], 'mm'))
        return lambda: P.KB.straight_incident_beam(source_position=src, sample_position=smp)

    @case('straight_scattered_beam', 'positions-far-apart')
    def _(P, A, O, rng):
        pos, smp = A(_vecs(_scaled_rows(rng, far))), A(_vec([0.1, 0.2, 0.3]))
        return lambda: P.KB.straight_scattered_beam(position=pos, sample_position=smp)

    @case('total_beam_length', 'lengths-any-magnitude')
    def _(P, A, O, rng):
        l1, l2 = A(_s(25.0, 'm')), A(_arr(rng.uniform(0, 1, _N) * far, 'm'))
        return lambda: P.KB.total_beam_length(L1=l1, L2=l2)

    @case('total_straight_beam_length_no_scatter', 'positions-far-apart')
    def _(P, A, O, rng):
        src, pos = A(_vec([0.0, 0.0, -25.0])), A(_vecs(_scaled_rows(rng, far)))
        return lambda: P.KB.total_straight_beam_length_no_scatter(source_position=src, position=pos)

    @case('two_theta', 'beams-any-length')
    def _(P, A, O, rng):
        b1, b2 = A(_vec([0.0, 0.0, 25.0])), A(_vecs(_scaled_rows(rng, far)))
        return lambda: P.KB.two_theta(incident_beam=b1, scattered_beam=b2)

    @case('two_theta', 'both-beams-arrays')
    def _(P, A, O, rng):
        b1, b2 = A(_vecs(_scaled_rows(rng, far[::-1]))), A(_vecs(_scaled_rows(rng, far)))
        return lambda: P.KB.two_theta(incident_beam=b1, scattered_beam=b2)

    @case('two_theta', 'incident-has-extra-dim')
    def _(P, A, O, rng):
        b1, b2 = A(_vecs(_scaled_rows(rng, [3.0, 25.0]), dim='y')), A(_vecs(_scaled_rows(rng, far)))
        return lambda: P.KB.two_theta(incident_beam=b1, scattered_beam=b2)

    @case('two_theta', 'parallel-and-antiparallel')
    def _(P, A, O, rng):
        b1 = A(_vec([0.0, 0.0, 25.0]))
        b2 = A(_vecs([[0, 0, 3.0], [0, 0, -3.0], [0, 0, 25.0], [0, 1e-12, 7.0], [0, 4.0, 0]]))
        return lambda: P.KB.two_theta(incident_beam=b1, scattered_beam=b2)

    @case('two_theta', 'beams-in-different-units')
    def _(P, A, O, rng):
        b1, b2 = A(_vec([0.0, 0.0, 25e3], 'mm')), A(_vecs(_scaled_rows(rng, far)))
        return lambda: P.KB.two_theta(incident_beam=b1, scattered_beam=b2)

    for facet, gv in {**gravities, 'gravity-not-orthogonal': [0.0, -9.0, 2.0]}.items():
        @case('beam_aligned_unit_vectors', facet)
        def _(P, A, O, rng, gv=gv):
            b, g = A(_vec([0.0, 0.0, 25.0])), A(_vec(gv, 'm/s^2'))
            return lambda: P.KB.beam_aligned_unit_vectors(incident_beam=b, gravity=g)

    @case('beam_aligned_unit_vectors', 'beam-parallel-to-gravity')
    def _(P, A, O, rng):
        b, g = A(_vec([0.0, -3.0, 0.0])), A(_vec(g_std, 'm/s^2'))
        return lambda: P.KB.beam_aligned_unit_vectors(incident_beam=b, gravity=g)

    @case('beam_aligned_unit_vectors', 'beam-off-axis-any-length')
    def _(P, A, O, rng):
        b, g = A(_vecs([[3e-3, 0, 4e-3], [30.0, 0, -40.0], [1e5, 0.0, 1.0]])), A(_vec(g_std, 'm/s^2'))
        return lambda: P.KB.beam_aligned_unit_vectors(incident_beam=b, gravity=g)

    def gravity_args(A, rng, gv, beam=(0.0, 0.0, 25.0), dt='float64', scales=far):
        # wavelength in the internal unit of the kernels (m), so that value x aliasing are crossed
        return dict(incident_beam=A(_vec(beam)), scattered_beam=A(_vecs(_scaled_rows(rng, scales) + [0, 0, 1e-2])),
                    wavelength=A(_arr(rng.uniform(1, 10, len(scales)) * 1e-10, 'm', dtype=dt)),
                    gravity=A(_vec(gv, 'm/s^2')))

    for facet, gv in gravities.items():
        @case('scattering_angles_with_gravity', facet)
        def _(P, A, O, rng, gv=gv):
            kw = gravity_args(A, rng, gv)
            return lambda: P.KB.scattering_angles_with_gravity(**kw)

        @case('scattering_angle_in_yz_plane', facet)
        def _(P, A, O, rng, gv=gv):
            kw = gravity_args(A, rng, gv)
            return lambda: P.KB.scattering_angle_in_yz_plane(**kw)

    @case('scattering_angles_with_gravity', 'gravity-not-orthogonal-any-length')
    def _(P, A, O, rng):
        kw = gravity_args(A, rng, [1.0, -90.0, 20.0], beam=(0.2, 0.1, 0.5), dt='float32')
        return lambda: P.KB.scattering_angles_with_gravity(**kw)

    @case('scattering_angle_in_yz_plane', 'gravity-not-orthogonal')
    def _(P, A, O, rng):
        kw = gravity_args(A, rng, [0.0, -9.0, 2.0])
        return lambda: P.KB.scattering_angle_in_yz_plane(**kw)

    @case('scattering_angles_with_gravity', 'beam-off-axis-any-length')
    def _(P, A, O, rng):
        kw = gravity_args(A, rng, g_std, beam=(-3e3, 0.0, 4e3))
        return lambda: P.KB.scattering_angles_with_gravity(**kw)

    @case('scattering_angles_with_gravity', 'wavelength-unsorted-zero-negative')
    def _(P, A, O, rng):
        kw = gravity_args(A, rng, g_std)
        kw['wavelength'] = A(_arr([9e-10, 0.0, -2e-10, 5e-10, 1e-10], 'm'))
        return lambda: P.KB.scattering_angles_with_gravity(**kw)

    @case('scattering_angle_in_yz_plane', 'wavelength-unsorted-zero-negative')
    def _(P, A, O, rng):
        kw = gravity_args(A, rng, g_std)
        kw['wavelength'] = A(_arr([9e-10, 0.0, -2e-10, 5e-10, 1e-10], 'm'))
        return lambda: P.KB.scattering_angle_in_yz_plane(**kw)

    # ------------------------------------------------------------ conversion.tof
    def unsorted(rng, lo, hi, extra=()):
        v = np.concatenate([np.sort(rng.uniform(lo, hi, _N - len(extra)))[::-1], np.asarray(extra, dtype=float)])
        return v

    angle_oor = [-0.5, 0.0, 3.5, 7.0, 400.0]  # negative, zero, beyond pi, beyond one turn, many turns

    @case('wavelength_from_tof', 'tof-unsorted-zero-negative')
    def _(P, A, O, rng):
        tof, L = A(_arr(unsorted(rng, 1e3, 1e4, [0.0, -5.0]), 'us')), A(_arr(unsorted(rng, 1, 100, [0.0]), 'm'))
        return lambda: P.KT.wavelength_from_tof(tof=tof, Ltotal=L)

    @case('energy_from_tof', 'tof-unsorted-zero-negative')
    def _(P, A, O, rng):
        tof, L = A(_arr(unsorted(rng, 1e3, 1e4, [0.0, -5.0]), 'us')), A(_arr(unsorted(rng, 1, 100, [0.0]), 'm'))
        return lambda: P.KT.energy_from_tof(tof=tof, Ltotal=L)

    @case('dspacing_from_tof', 'two_theta-out-of-range')
    def _(P, A, O, rng):
        tof, L = A(_arr(unsorted(rng, 1e3, 1e4), 'us')), A(_s(25.0, 'm'))
        tt = A(_arr(angle_oor, 'rad'))
        return lambda: P.KT.dspacing_from_tof(tof=tof, Ltotal=L, two_theta=tt)

    for mode, ekey in (('direct', 'incident_energy'), ('indirect', 'final_energy')):
        @case(f'energy_transfer_{mode}_from_tof', 'tof-below-and-above-t0')
        def _(P, A, O, rng, mode=mode, ekey=ekey):
            # t0 for 10 m at 15 meV is about 5.9 ms: both sides of the threshold, unsorted
            tof = A(_arr([2e4, 1e2, 5.9e3, 0.0, 9e3], 'us'))
            l1, l2, e = A(_s(10.0, 'm')), A(_arr(unsorted(rng, 9, 11), 'm')), A(_s(15.0, 'meV'))
            f = getattr(P.KT, f'energy_transfer_{mode}_from_tof')
            return lambda: f(tof=tof, L1=l1, L2=l2, **{ekey: e})

    @case('energy_from_wavelength', 'wavelength-unsorted-zero-negative')
    def _(P, A, O, rng):
        lam = A(_arr(unsorted(rng, 1, 10, [0.0, -2.0]), 'angstrom'))
        return lambda: P.KT.energy_from_wavelength(wavelength=lam)

    @case('wavelength_from_energy', 'energy-unsorted-zero-negative')
    def _(P, A, O, rng):
        en = A(_arr(unsorted(rng, 1, 100, [0.0, -2.0]), 'meV'))
        return lambda: P.KT.wavelength_from_energy(energy=en)

    for name, arg, unit in (('Q_from_wavelength', 'wavelength', 'angstrom'), ('wavelength_from_Q', 'Q', '1/angstrom'),
                            ('dspacing_from_wavelength', 'wavelength', 'angstrom'),
                            ('dspacing_from_energy', 'energy', 'meV')):
        @case(name, 'two_theta-out-of-range')
        def _(P, A, O, rng, name=name, arg=arg, unit=unit):
            x, tt = A(_arr(unsorted(rng, 1, 10), unit)), A(_arr(angle_oor, 'rad'))
            return lambda: getattr(P.KT, name)(**{arg: x}, two_theta=tt)

    @case('Q_elements_from_wavelength', 'beams-any-length')
    def _(P, A, O, rng):
        lam = A(_arr(unsorted(rng, 1, 10), 'angstrom'))
        b1, b2 = A(_vec([0.0, 0.0, 25.0])), A(_vecs(_scaled_rows(rng, far)))
        return lambda: P.KT.Q_elements_from_wavelength(wavelength=lam, incident_beam=b1, scattered_beam=b2)

    @case('Q_vec_from_Q_elements', 'components-any-magnitude')
    def _(P, A, O, rng):
        q = [A(_arr(rng.normal(size=_N) * far, '1/angstrom')) for _ in range(3)]
        return lambda: P.KT.Q_vec_from_Q_elements(Qx=q[0], Qy=q[1], Qz=q[2])

    def sheared(rng):
        return np.eye(3) * [2.0, 0.5, 30.0] + rng.normal(size=(3, 3)) * 0.3

    @case('ub_matrix_from_u_and_b', 'u-not-orthonormal')
    def _(P, A, O, rng):
        u = A(sc.spatial.linear_transform(value=sheared(rng)))
        b = A(sc.spatial.linear_transform(value=sheared(rng), unit='1/angstrom'))
        return lambda: P.KT.ub_matrix_from_u_and_b(u_matrix=u, b_matrix=b)

    @case('hkl_vec_from_Q_vec', 'rotation-not-orthonormal')
    def _(P, A, O, rng):
        q = A(_vecs(_scaled_rows(rng, far), '1/angstrom'))
        ub = A(sc.spatial.linear_transform(value=sheared(rng), unit='1/angstrom'))
        rot = A(sc.spatial.linear_transform(value=sheared(rng)))
        return lambda: P.KT.hkl_vec_from_Q_vec(Q_vec=q, ub_matrix=ub, sample_rotation=rot)

    @case('hkl_vec_from_Q_vec', 'rotation-quaternion-any-angle')
    def _(P, A, O, rng):
        q = A(_vecs(_scaled_rows(rng, far), '1/angstrom'))
        ub = A(sc.spatial.linear_transform(value=sheared(rng), unit='1/angstrom'))
        rot = A(sc.spatial.rotations_from_rotvecs(_vec([0.0, 7.5, -0.2], 'rad')))  # more than one turn
        return lambda: P.KT.hkl_vec_from_Q_vec(Q_vec=q, ub_matrix=ub, sample_rotation=rot)

    @case('hkl_elements_from_hkl_vec', 'components-any-magnitude')
    def _(P, A, O, rng):
        hkl = A(_vecs(_scaled_rows(rng, far), 'one'))
        return lambda: P.KT.hkl_elements_from_hkl_vec(hkl_vec=hkl)

    @case('time_at_sample_from_tof', 'tof-unsorted-zero-negative')
    def _(P, A, O, rng):
        pt = A(_arr(np.arange(_N)[::-1] * 0.071 + 1e6, 's'))
        tof = A(_arr([0.07, 0.0, -5e-9, 3e-3, 1e-8], 's'))
        l2, lam = A(_arr(unsorted(rng, 1, 100, [0.0]), 'm')), A(_arr(unsorted(rng, 1, 10, [0.0]), 'angstrom'))
        return lambda: P.KT.time_at_sample_from_tof(pulse_time=pt, tof=tof, L2=l2, wavelength=lam)

    # ------------------------------------------------------------ chopper.DiskChopper
    slit_sets = {  # (begin, end) in deg: the docs allow any order; slits live on a circle
        'slits-unsorted': ([200.0, 10.0, 100.0], [250.0, 60.0, 150.0]),
        'slits-beyond-one-turn': ([350.0, 380.0, 460.0], [370.0, 440.0, 500.0]),
        'slits-negative': ([-90.0, -20.0, 60.0], [-40.0, 10.0, 120.0]),
        'slits-many-turns': ([3600.0 + 10.0, 720.0 + 100.0], [3600.0 + 60.0, 720.0 + 150.0]),
    }

    def disk(P, A, begin, end, unit='deg', f=14.0, funit='Hz', phase=(0.5, 'rad'), beam=(0.0, 'rad'),
             axle=(0.0, 0.0, 8.0), **extra):
        conv = (lambda v: np.deg2rad(v)) if unit == 'rad' else (lambda v: np.asarray(v, dtype=float))
        return P.DiskChopper(
            axle_position=A(_vec(axle)), frequency=A(_s(f, funit)), beam_position=A(_s(*beam)), phase=A(_s(*phase)),
            slit_begin=A(_arr(conv(begin), unit, dim='slit')), slit_end=A(_arr(conv(end), unit, dim='slit')), **extra)

    for facet, (b, e) in slit_sets.items():
        for unit in ('deg', 'rad'):
            @case('DiskChopper', f'{facet}[{unit}]')
            def _(P, A, O, rng, b=b, e=e, unit=unit):
                def f():
                    dc = disk(P, A, b, e, unit=unit, f=-28.0, slit_height=A(_arr(rng.uniform(1, 5, len(b)), 'cm', dim='slit')),
                              radius=A(_s(35.0, 'cm')))
                    pf = A(_s(14.0, 'Hz'))
                    dc.time_offset_open(pulse_frequency=pf)
                    dc.time_offset_close(pulse_frequency=pf)
                    dc.open_duration(pulse_frequency=pf)
                    dc.make_svg()
                return f

    @case('DiskChopper', 'slits-overlapping')
    def _(P, A, O, rng):
        return lambda: disk(P, A, [10.0, 350.0], [60.0, 380.0])

    @case('DiskChopper', 'slits-inverted')
    def _(P, A, O, rng):
        return lambda: disk(P, A, [60.0, 100.0], [10.0, 150.0])

    freqs = {  # chopper frequency, unit, pulse frequency, unit
        'frequency-negative': (-14.0, 'Hz', 14.0, 'Hz'),
        'frequency-multiple-of-pulse': (56.0, 'Hz', 14.0, 'Hz'),
        'frequency-fraction-of-pulse': (-7.0, 'Hz', 14.0, 'Hz'),
        'frequency-per-minute': (-840.0, '1/min', 14.0, 'Hz'),
        'pulse-frequency-other-unit': (28.0, 'Hz', 0.014, 'kHz'),
        'frequencies-out-of-phase': (15.0, 'Hz', 14.0, 'Hz'),
        'pulse-frequency-negative': (14.0, 'Hz', -14.0, 'Hz'),
    }
    for facet, (f, fu, pf, pfu) in freqs.items():
        for meth in ('time_offset_open', 'time_offset_close', 'open_duration'):
            @case(f'DiskChopper.{meth}', facet)
            def _(P, A, O, rng, f=f, fu=fu, pf=pf, pfu=pfu, meth=meth):
                dc = O(disk(P, A, *slit_sets['slits-unsorted'], f=f, funit=fu, phase=(-400.0, 'deg'), beam=(7.0, 'rad')))
                p = A(_s(pf, pfu))
                return lambda: getattr(dc, meth)(pulse_frequency=p)

        @case('Chopper.from_disk_chopper', facet)
        def _(P, A, O, rng, f=f, fu=fu, pf=pf, pfu=pfu):
            dc = O(disk(P, A, *slit_sets['slits-beyond-one-turn'], unit='rad', f=f, funit=fu, phase=(-7.0, 'rad'),
                        axle=(3.0, -4.0, 12.0)))
            p = A(_s(pf, pfu))
            return lambda: P.CC.Chopper.from_disk_chopper(dc, pulse_frequency=p, npulses=3)

    for facet, mk in {
        'angle-beyond-one-turn[rad]': lambda: _arr([7.0, -0.5, 100.0, 0.0, 3.0], 'rad', dim='slit'),
        'angle-beyond-one-turn[deg]': lambda: _arr([400.0, -30.0, 7200.0, 0.0, 90.0], 'deg', dim='slit'),
        'angle-scalar': lambda: _s(-7.0, 'rad'),
        'angle-2d-unsorted': lambda: sc.array(dims=['k', 'slit'], values=[[3.0, 1.0, 2.0], [9.0, -8.0, 0.5]], unit='rad'),
    }.items():
        for f in (14.0, -14.0):
            @case('DiskChopper.time_offset_angle_at_beam', f'{facet},{"clockwise" if f < 0 else "anticlockwise"}')
            def _(P, A, O, rng, mk=mk, f=f):
                dc = O(disk(P, A, *slit_sets['slits-negative'], f=f))
                ang = A(mk())
                return lambda: dc.time_offset_angle_at_beam(angle=ang, n_repetitions=3)

    @case('DiskChopper.from_nexus', 'slit_edges-interleaved-unsorted')
    def _(P, A, O, rng):
        dg = O({'position': A(_vec([0.0, 0.0, 8.0])), 'rotation_speed': A(_s(-14.0, 'Hz')),
                'beam_position': A(_s(400.0, 'deg')), 'phase': A(_s(-30.0, 'deg')),
                'slit_edges': A(_arr([200.0, 250.0, 10.0, 60.0, 430.0, 440.0], 'deg', dim='slit')),
                'slit_height': A(_s(3.0, 'cm')), 'radius': A(_s(35.0, 'cm'))})
        return lambda: P.DiskChopper.from_nexus(dg)

    @case('extract_chopper_from_nexus', 'logs-unsorted')
    def _(P, A, O, rng):
        t = sc.datetimes(dims=['time'], values=np.array([5, 1, 3, 2]) * 10**9, unit='ns')
        log = sc.DataArray(_arr([14.0, -14.0, 13.9, 14.1], 'Hz', dim='time'), coords={'time': t})
        dg = O(sc.DataGroup({'position': A(_vec([0.0, 0.0, 8.0])),
                             'rotation_speed': sc.DataGroup({'value': A(log)}),
                             'top_dead_center': sc.DataGroup({'time': A(t)}),
                             'slit_edges': A(_arr([200.0, 250.0, 10.0, 60.0], 'deg', dim='slit'))}))
        return lambda: P.extract_chopper_from_nexus(dg)

    # ------------------------------------------------------------ chopper.filtering
    def signal(rng, order, unit='Hz', tunit='s'):
        lvl = np.repeat([1.0, 5.0, -2.0, -2.0, 7.0], 10) + rng.normal(size=50) * 1e-4
        t = np.arange(50.0)
        return sc.DataArray(_arr(lvl[order], unit, dim='time'), coords={'time': _arr(t[order], tunit, dim='time')})

    @case('find_plateaus', 'time-unsorted')
    def _(P, A, O, rng):
        sig, atol = A(signal(rng, rng.permutation(50))), A(_s(0.01, 'Hz/s'))
        return lambda: P.filtering.find_plateaus(sig, atol=atol, min_n_points=3)

    @case('find_plateaus', 'time-descending')
    def _(P, A, O, rng):
        sig, atol = A(signal(rng, np.arange(50)[::-1])), A(_s(0.01, 'Hz/s'))
        return lambda: P.filtering.find_plateaus(sig, atol=atol, min_n_points=3)

    @case('find_plateaus', 'atol-other-unit-and-variable-min-points')
    def _(P, A, O, rng):
        sig, atol = A(signal(rng, np.arange(50))), A(_s(0.6, '1/(s*min)'))
        npts = A(sc.scalar(3, unit=None))
        return lambda: P.filtering.find_plateaus(sig, atol=atol, min_n_points=npts)

    def plateaus(P, rng):
        return P.filtering.find_plateaus(signal(rng, np.arange(50)), atol=_s(0.01, 'Hz/s'), min_n_points=3)

    @case('collapse_plateaus', 'negative-and-repeated-levels')
    def _(P, A, O, rng):
        pl = A(plateaus(P, rng))
        return lambda: P.filtering.collapse_plateaus(pl)

    for facet, ref in {'reference-per-minute': (60.0, '1/min'), 'reference-negative': (-1.0, 'Hz'),
                       'reference-larger-than-data': (14.0, 'Hz')}.items():
        @case('filter_in_phase', facet)
        def _(P, A, O, rng, ref=ref):
            fr = A(P.filtering.collapse_plateaus(plateaus(P, rng)))
            r, rtol = A(_s(*ref)), A(sc.scalar(0.05))
            return lambda: P.filtering.filter_in_phase(fr, reference=r, rtol=rtol)

    # ------------------------------------------------------------ tof.chopper_cascade
    @case('propagate_times', 'distance-negative-range-other-unit')
    def _(P, A, O, rng):
        t, w = A(_arr(unsorted(rng, 0, 3e-3, [-1e-3]), 's', dim='vertex')), A(_arr(unsorted(rng, 1, 10, [0.0]), 'angstrom', dim='vertex'))
        d = A(_arr([30e3, -5e3, 0.0], 'mm', dim='distance'))
        return lambda: P.CC.propagate_times(t, w, d)

    vertex_orders = {  # the same rectangle, the walk starting anywhere and in either sense
        'vertices-clockwise': ([0.0, 0.0, 3e-3, 3e-3], [1.0, 8.0, 8.0, 1.0]),
        'vertices-start-at-max': ([3e-3, 0.0, 0.0, 3e-3], [8.0, 8.0, 1.0, 1.0]),
    }
    chopper_sets = {  # (distance, unit, open, close): windows in any order, overlapping, inverted, outside
        'windows-unsorted': (8.0, 'm', [15e-3, 5e-3, 40e-3], [20e-3, 9e-3, 45e-3]),
        'windows-overlapping': (8.0, 'm', [5e-3, 7e-3], [9e-3, 12e-3]),
        'windows-inverted': (8.0, 'm', [9e-3, 20e-3], [5e-3, 15e-3]),
        'windows-negative-and-far': (8.0, 'm', [-5e-3, 5.0], [-1e-3, 6.0]),
        'distance-other-unit': (8000.0, 'mm', [5e-3, 15e-3], [9e-3, 20e-3]),
        'distance-equal-to-frame': (0.0, 'm', [1e-3, 2.5e-3], [2e-3, 4e-3]),
        'distance-before-frame': (-2.0, 'm', [1e-3], [2e-3]),
    }

    def frame(P, A, order='vertices-clockwise'):
        t, w = vertex_orders[order]
        return P.CC.Frame(distance=A(_s(0.0, 'm')),
                          subframes=[P.CC.Subframe(time=A(_arr(t, 's', dim='vertex')),
                                                   wavelength=A(_arr(w, 'angstrom', dim='vertex')))])

    def chopper(P, A, d, du, o, c):
        return P.CC.Chopper(distance=A(_s(d, du)), time_open=A(_arr(o, 's', dim='cutout')),
                            time_close=A(_arr(c, 's', dim='cutout')))

    for facet, spec in chopper_sets.items():
        @case('Frame.chop', facet)
        def _(P, A, O, rng, spec=spec):
            fr, ch = O(frame(P, A)), O(chopper(P, A, *spec))
            return lambda: fr.chop(ch)

    for facet in vertex_orders:
        @case('Frame.chop', facet)
        def _(P, A, O, rng, facet=facet):
            fr, ch = O(frame(P, A, facet)), O(chopper(P, A, *chopper_sets['windows-unsorted']))
            return lambda: fr.chop(ch)

        @case('Frame.bounds+subbounds', facet)
        def _(P, A, O, rng, facet=facet):
            fr = O(frame(P, A, facet).chop(chopper(P, A, *chopper_sets['windows-unsorted'])))
            return lambda: (fr.bounds(), fr.subbounds())

    @case('Frame.bounds+subbounds', 'subframe-irregular')
    def _(P, A, O, rng):
        fr = O(P.CC.Frame(distance=A(_s(0.0, 'm')), subframes=[P.CC.Subframe(
            time=A(_arr([3e-3, 0.0, 1e-3, 2e-3], 's', dim='vertex')),
            wavelength=A(_arr([1.0, 8.0, 9.0, 0.5], 'angstrom', dim='vertex')))]))
        return lambda: (fr.bounds(), fr.subbounds())

    @case('Frame.propagate_to', 'distance-backwards-other-unit')
    def _(P, A, O, rng):
        fr, d = O(frame(P, A, 'vertices-start-at-max')), A(_s(-2500.0, 'mm'))
        return lambda: fr.propagate_to(d)

    def source(P, A, swapped=False, units=('s', 'angstrom')):
        tmin, tmax, wmin, wmax = 0.0, 3e-3, 1.0, 8.0
        ts = 1e3 if units[0] == 'ms' else 1.0
        ws = 0.1 if units[1] == 'nm' else 1.0
        if swapped:
            tmin, tmax, wmin, wmax = tmax, tmin, wmax, wmin
        return dict(time_min=A(_s(tmin * ts, units[0])), time_max=A(_s(tmax * ts, units[0])),
                    wavelength_min=A(_s(wmin * ws, units[1])), wavelength_max=A(_s(wmax * ws, units[1])))

    @case('FrameSequence.from_source_pulse', 'min-max-swapped')
    def _(P, A, O, rng):
        kw = source(P, A, swapped=True)
        return lambda: P.CC.FrameSequence.from_source_pulse(**kw)

    @case('FrameSequence.from_source_pulse', 'other-units')
    def _(P, A, O, rng):
        kw = source(P, A, units=('ms', 'nm'))
        return lambda: P.CC.FrameSequence.from_source_pulse(**kw)

    @case('FrameSequence.chop', 'choppers-not-sorted-by-distance')
    def _(P, A, O, rng):
        fs = O(P.CC.FrameSequence.from_source_pulse(**source(P, A)))
        chs = O([chopper(P, A, 15.0, 'm', [30e-3, 10e-3], [40e-3, 20e-3]),
                 chopper(P, A, 8.0, 'm', [15e-3, 5e-3], [20e-3, 9e-3]),
                 chopper(P, A, 8.0, 'm', [5e-3], [30e-3]),
                 chopper(P, A, 11.0, 'm', [5e-3], [30e-3])])
        return lambda: fs.chop(chs)

    @case('FrameSequence.chop', 'choppers-not-sorted-distances-in-different-units')
    def _(P, A, O, rng):
        fs = O(P.CC.FrameSequence.from_source_pulse(**source(P, A)))
        chs = O([chopper(P, A, 15.0, 'm', [30e-3, 10e-3], [40e-3, 20e-3]),
                 chopper(P, A, 8000.0, 'mm', [15e-3, 5e-3], [20e-3, 9e-3])])
        return lambda: fs.chop(chs)

    @case('FrameSequence.chop', 'choppers-as-tuple-in-reverse')
    def _(P, A, O, rng):
        fs = O(P.CC.FrameSequence.from_source_pulse(**source(P, A, swapped=True)))
        chs = O((chopper(P, A, 15.0, 'm', [10e-3], [20e-3]), chopper(P, A, 8.0, 'm', [5e-3], [9e-3])))
        return lambda: fs.chop(chs)

    for facet, d in {'distance-other-unit': (12e3, 'mm'), 'distance-before-source': (-1.0, 'm'),
                     'distance-far-beyond': (1e6, 'm'), 'distance-at-chopper': (8.0, 'm')}.items():
        @case('FrameSequence.__getitem__', facet)
        def _(P, A, O, rng, d=d):
            fs = O(P.CC.FrameSequence.from_source_pulse(**source(P, A)).chop(
                [chopper(P, A, 15.0, 'm', [10e-3], [20e-3]), chopper(P, A, 8.0, 'm', [5e-3], [9e-3])]))
            dist = A(_s(*d))
            return lambda: fs[dist]

        @case('FrameSequence.propagate_to', facet)
        def _(P, A, O, rng, d=d):
            fs = O(P.CC.FrameSequence.from_source_pulse(**source(P, A)).chop(
                [chopper(P, A, 8.0, 'm', [15e-3, 5e-3], [20e-3, 9e-3])]))
            dist = A(_s(*d))
            return lambda: fs.propagate_to(dist)

    # ------------------------------------------------------------ peaks
    def spectrum(rng, order=None, nan=False):
        x = np.linspace(0.0, 10.0, 120)
        y = 5 * np.exp(-((x - 4.0) / 0.3) ** 2) + 3 * np.exp(-((x - 6.5) / 0.25) ** 2) + 1.0 + rng.normal(size=120) * 0.05
        if nan:
            y[[7, 50]] = np.nan
        if order is not None:
            x, y = x[order], y[order]
        da = sc.DataArray(_arr(y, 'one'), coords={'x': _arr(x, 'angstrom')})
        da.variances = np.full(120, 0.05 ** 2)
        return da

    def win2d(rows, unit='angstrom'):
        return sc.array(dims=['x', 'range'], values=np.asarray(rows, dtype=float), unit=unit)

    fit_sets = {  # peak estimates, windows
        'windows-2d-beyond-data-range': ([4.0, 6.5], win2d([[-50.0, 5.0], [5.5, 1e3]])),
        'windows-2d-overlapping-unsorted': ([6.5, 4.0], win2d([[3.0, 9.0], [1.0, 7.0]])),
        'windows-2d-inverted': ([4.0, 6.5], win2d([[5.0, 3.0], [7.5, 5.5]])),
        'windows-2d-other-unit': ([4.0, 6.5], win2d([[0.3, 0.5], [0.55, 0.75]], 'nm')),
        'window-scalar-wider-than-data': ([4.0, 6.5], _s(500.0, 'angstrom')),
        'window-scalar-other-unit': ([4.0, 6.5], _s(0.2, 'nm')),
        'window-scalar-zero': ([4.0, 6.5], _s(0.0, 'angstrom')),
        'estimates-outside-data-range': ([-3.0, 4.0, 6.5, 40.0], _s(2.0, 'angstrom')),
        'estimates-unsorted': ([6.5, 4.0], _s(2.0, 'angstrom')),
        'estimates-closer-than-window': ([4.0, 4.2, 6.5], _s(3.0, 'angstrom')),
    }
    for facet, (est, win) in fit_sets.items():
        @case('fit_peaks', facet)
        def _(P, A, O, rng, est=est, win=win):
            da, e, w = A(spectrum(rng)), A(_arr(est, 'angstrom')), A(win)
            return lambda: P.peaks.fit_peaks(da, peak_estimates=e, windows=w, background='linear', peak='gaussian')

    for facet, kw in {'coordinate-descending': dict(order=np.arange(120)[::-1]), 'data-with-nan': dict(nan=True)}.items():
        @case('fit_peaks', facet)
        def _(P, A, O, rng, kw=kw):
            da, e, w = A(spectrum(rng, **kw)), A(_arr([4.0, 6.5], 'angstrom')), A(_s(2.0, 'angstrom'))
            return lambda: P.peaks.fit_peaks(da, peak_estimates=e, windows=w, background=['linear', 'quadratic'],
                                             peak=['lorentzian', 'gaussian'])

    for facet in ('windows-2d-beyond-data-range', 'windows-2d-overlapping-unsorted'):
        @case('remove_peaks', facet)
        def _(P, A, O, rng, facet=facet):
            est, win = fit_sets[facet]
            da = spectrum(rng)
            res = O(P.peaks.fit_peaks(da, peak_estimates=_arr(est, 'angstrom'), windows=win.copy(), background='linear',
                                      peak='gaussian'))
            nv = A(sc.DataArray(sc.values(da.data), coords={'x': da.coords['x']}))
            return lambda: P.peaks.remove_peaks(nv, res)

    @case('FitResult.eval', 'x-unsorted-beyond-window')
    def _(P, A, O, rng):
        est, win = fit_sets['windows-2d-beyond-data-range']
        res = O(P.peaks.fit_peaks(spectrum(rng), peak_estimates=_arr(est, 'angstrom'), windows=win.copy(),
                                  background='linear', peak='gaussian'))
        x = A(_arr(unsorted(rng, -50, 50), 'angstrom'))
        return lambda: [(r.eval_model(x), r.eval_peak(x), r.report()) for r in res]

    for mname in ('GaussianModel', 'LorentzianModel', 'PseudoVoigtModel'):
        @case(f'{mname}.__call__', 'x-unsorted-scale-negative')
        def _(P, A, O, rng, mname=mname):
            m = O(getattr(P.peaks.model, mname)(prefix='p_'))
            x = A(_arr(unsorted(rng, -5, 15, [4.0]), 'angstrom'))
            pr = {'p_amplitude': A(sc.scalar(-2.0)), 'p_loc': A(_s(4.0, 'angstrom')), 'p_scale': A(_s(-0.3, 'angstrom'))}
            if 'p_fraction' in m.param_names:
                pr['p_fraction'] = A(sc.scalar(1.7))
            pr = O(pr)
            return lambda: (m(x, **pr), m.fwhm(pr))

        @case(f'{mname}.guess', 'data-unsorted')
        def _(P, A, O, rng, mname=mname):
            m = O(getattr(P.peaks.model, mname)(prefix='p_'))
            da = A(spectrum(rng, order=rng.permutation(120)))
            return lambda: m.guess(da)

    @case('PolynomialModel', 'x-unsorted-negative')
    def _(P, A, O, rng):
        m = O(P.peaks.model.PolynomialModel(degree=2, prefix='b_'))
        x = A(_arr(unsorted(rng, -5, 15, [0.0]), 'angstrom'))
        pr = O({'b_a0': A(_s(-1.0, '1/angstrom')), 'b_a1': A(_s(0.0, '1/angstrom^2')), 'b_a2': A(_s(1e6, '1/angstrom^3'))})
        da = A(spectrum(rng, order=rng.permutation(120)))
        return lambda: (m(x, **pr), m.guess(da))

    # ------------------------------------------------------------ absorption
    axes = {  # symmetry line of the cylinder: the quadrature is rotated from z onto it
        'axis-y': [0.0, 1.0, 0.0], 'axis-z': [0.0, 0.0, 1.0], 'axis-minus-z': [0.0, 0.0, -1.0],
        'axis-tilted': [0.6, 0.0, 0.8], 'axis-not-normalised': [0.0, 3.0, 4.0],
    }
    beams = {  # beam_direction: documented as a direction, i.e. any length
        'beam-length-25': [0.0, 0.0, 25.0], 'beam-length-1e-3': [0.0, 0.0, 1e-3],
        'beam-off-axis-any-length': [0.3, -0.2, 2.0], 'beam-nearly-unit': [0.0, 0.0, 1.0 + 1e-4],
        'beam-along-cylinder-axis': [0.0, 7.0, 0.0], 'beam-reversed': [0.0, 0.0, -1.0],
    }

    def cylinder(P, A, axis='axis-y', unit='cm'):
        k = 1.0 if unit == 'cm' else 10.0
        return P.Cylinder(symmetry_line=A(_vec(axes[axis], 'one')), center_of_base=A(_vec([0.0, -0.5 * k, 0.0], unit)),
                          radius=A(_s(0.5 * k, unit)), height=A(_s(1.0 * k, unit)))

    def material(P, A):
        return P.Material(scattering_params=P.ScatteringParams.for_isotope('V'),
                          effective_sample_number_density=A(_s(0.07, '1/angstrom^3')))

    def transmission(P, A, O, rng, axis='axis-y', beam=(0.0, 0.0, 1.0), det=None, wl=None, cunit='cm'):
        cyl, mat = O(cylinder(P, A, axis, cunit)), O(material(P, A))
        b = A(_vec(beam, 'one'))
        w = A(wl if wl is not None else sc.linspace('wavelength', 0.5, 5.0, 3, unit='angstrom'))
        d = A(det if det is not None else _vecs(rng.normal(size=(4, 3)) * 100, 'cm'))
        return lambda: P.compute_transmission_map(cyl, mat, beam_direction=b, wavelength=w, detector_position=d,
                                                  quadrature_kind='cheap')

    for facet, bv in beams.items():
        @case('compute_transmission_map', facet)
        def _(P, A, O, rng, bv=bv):
            return transmission(P, A, O, rng, beam=bv)

    @case('compute_transmission_map', 'beam-from-positions')
    def _(P, A, O, rng):
        src, smp = _vec([0.0, 0.0, -25.0], 'one'), _vec([0.0, 0.0, 0.0], 'one')
        return transmission(P, A, O, rng, beam=(smp - src).value)

    for facet in axes:
        @case('compute_transmission_map', facet)
        def _(P, A, O, rng, facet=facet):
            return transmission(P, A, O, rng, axis=facet, beam=(0.0, 0.1, 3.0))

    for facet, mk in {
        'detectors-far-away': lambda rng: _vecs(_scaled_rows(rng, [1e3, 1e6, 1e9, 1e12]), 'cm'),
        'detectors-inside-sample-other-unit': lambda rng: _vecs(rng.normal(size=(4, 3)) * 1e-3, 'm'),
        'detectors-2d': lambda rng: sc.vectors(dims=['x', 'y'], values=rng.normal(size=(2, 3, 3)) * 50, unit='cm'),
    }.items():
        @case('compute_transmission_map', facet)
        def _(P, A, O, rng, mk=mk):
            return transmission(P, A, O, rng, beam=(0.0, 0.0, 25.0), det=mk(rng))

    for facet, wl in {'wavelength-unsorted-zero-negative': _arr([5.0, 0.0, -1.0, 2.0], 'angstrom', dim='wavelength'),
                      'wavelength-other-unit': _arr([0.5, 0.05, 0.2], 'nm', dim='wavelength')}.items():
        @case('compute_transmission_map', facet)
        def _(P, A, O, rng, wl=wl):
            return transmission(P, A, O, rng, beam=(0.0, 0.0, 25.0), wl=wl, cunit='mm')

    for facet, mk in {
        'direction-any-length': lambda rng: _vecs(_scaled_rows(rng, far), 'one'),
        'direction-parallel-and-perpendicular-to-axis': lambda rng: _vecs(
            [[0, 5.0, 0], [0, -1e-3, 0], [2.0, 0, 0], [0, 0, -3.0], [1e-9, 1.0, 0]], 'one'),
    }.items():
        @case('Cylinder.beam_intersection', facet)
        def _(P, A, O, rng, mk=mk):
            cyl = O(cylinder(P, A, 'axis-y'))
            start = A(_vecs(_scaled_rows(rng, [1e-3, 0.1, 0.3, 5.0, 1e3]), 'cm'))
            direction = A(mk(rng))
            return lambda: cyl.beam_intersection(start, direction)

    for facet in axes:
        @case('Cylinder.quadrature', facet)
        def _(P, A, O, rng, facet=facet):
            cyl = O(cylinder(P, A, facet, 'mm'))
            return lambda: (cyl.quadrature('cheap'), cyl.quadrature('medium'), cyl.center, cyl.volume)

    @case('Material.attenuation_coefficient', 'wavelength-unsorted-other-unit')
    def _(P, A, O, rng):
        mat, wl = O(material(P, A)), A(_arr([0.5, 0.0, -0.1, 0.05], 'nm', dim='wavelength'))
        return lambda: mat.attenuation_coefficient(wl)

    # ------------------------------------------------------------ io
    def powder(rng, coord='tof', unit='us', order=None, scale=1.0):
        nn = 6
        x = np.linspace(1.0, 9.0, nn) * scale
        y = rng.random(nn) - 0.3
        if order is not None:
            x, y = x[order], y[order]
        v = rng.random(nn) * 0.01
        v[0] = 0.0
        return sc.DataArray(sc.array(dims=[coord], values=y, variances=v), coords={coord: _arr(x, unit, dim=coord)})

    for facet, kw in {'coordinate-unsorted-negative-intensity': dict(order=[3, 0, 5, 1, 4, 2]),
                      'coordinate-descending-dspacing': dict(coord='dspacing', unit='angstrom', order=[5, 4, 3, 2, 1, 0]),
                      'coordinate-huge': dict(scale=1e12)}.items():
        @case('CIF.with_reduced_powder_data+save', facet)
        def _(P, A, O, rng, kw=kw):
            da = A(powder(rng, **kw))
            return lambda: P.cif.CIF('a').with_reduced_powder_data(da, comment='c').save(io.StringIO())

        @case('save_xye', facet)
        def _(P, A, O, rng, kw=kw):
            da = A(powder(rng, **kw))
            return lambda: P.save_xye(io.StringIO(), da)

    @case('CIF.with_powder_calibration+save', 'powers-unsorted-repeated')
    def _(P, A, O, rng):
        cal = A(sc.DataArray(sc.array(dims=['cal'], values=[3.0, -1.0, 0.0, 2.5], variances=[0.1, 0.0, 0.2, 0.1]),
                             coords={'power': sc.array(dims=['cal'], values=[2, 0, 1, 0])}))
        return lambda: P.cif.CIF('a').with_powder_calibration(cal).save(io.StringIO())

    @case('SqwBuilder.create', 'vectors-not-normalised-angles-beyond-turn')
    def _(P, A, O, rng):
        S = P.sqw
        npx = 5
        exps = O([S.SqwIXExperiment(
            run_id=r, efix=A(_s(1.5 + r, 'meV')), emode=S.EnergyMode.direct,
            en=A(_arr([4.0, -1.0, 2.5], 'meV', dim='energy_transfer')),
            psi=A(_s(7.0, 'rad')), u=A(_vec([0.0, 30.0, 0.5], 'one')), v=A(_vec([1e-3, 1e-3, 0.0], 'one')),
            omega=A(_s(-0.1, 'rad')), dpsi=A(_s(400.0, 'deg')), gl=A(_s(-7.0, 'rad')), gs=A(_s(0.0, 'rad')),
            filename=f'run{r}.nxspe', filepath='/data') for r in range(2)])
        pix = A(sc.DataArray(
            sc.array(dims=['obs'], values=rng.normal(size=npx), variances=rng.random(npx), unit='count'),
            coords={**{f'u{i}': _arr(rng.normal(size=npx) * far, '1/angstrom', dim='obs') for i in (1, 2, 3)},
                    'u4': _arr(unsorted(rng, -5, 5), 'meV', dim='obs'),
                    **{k: sc.array(dims=['obs'], values=(np.arange(npx)[::-1]) % 2, unit=None, dtype='int64')
                       for k in ('idet', 'irun', 'ien')}}))
        sample = O(S.SqwIXSample(name='s', lattice_spacing=A(_vec([4.0, 2.0, 3.0], 'angstrom')),
                                 lattice_angle=A(_vec([np.pi / 2, 2.0, 1.0], 'rad'))))

        def build():
            b = S.Sqw.build(io.BytesIO(), byteorder='big')
            b.add_pixel_data(pix, experiments=exps).add_default_sample(sample).create()
        return build

    # ------------------------------------------------------------ convert / beamline components
    def beamline_da(rng, tof, scale=1.0, unit='m', gravity=None):
        nn = len(far)
        coords = {'tof': tof,
                  'position': _vecs(_scaled_rows(rng, far) * scale + [0.1, 0.2, 0.3], unit),
                  'source_position': _vec(np.array([0.1, 0.2, -25.0]) * scale, unit),
                  'sample_position': _vec(np.array([0.1, 0.2, 0.3]) * scale, unit)}
        if gravity is not None:
            coords['gravity'] = _vec(gravity, 'm/s^2')
        return sc.DataArray(sc.ones(dims=['x', 'tof'], shape=[nn, tof.sizes['tof']]), coords=coords)

    tofs = {
        'tof-unsorted-zero-negative': lambda: _arr([9e3, 0.0, -5.0, 2e3], 'us', dim='tof'),
        'tof-descending-edges': lambda: _arr([9e3, 7e3, 4e3, 2e3, 1e3], 'us', dim='tof'),
    }
    for facet, mk in tofs.items():
        for tgt in ('wavelength', 'dspacing', 'Q', 'energy'):
            @case(f'convert[{tgt}]', facet + ',positions-far-off-origin')
            def _(P, A, O, rng, mk=mk, tgt=tgt):
                da = A(beamline_da(rng, mk(), scale=1e3, unit='mm'))
                return lambda: P.scn.convert(da, 'tof', tgt, scatter=True)

    for fname in ('position', 'source_position', 'sample_position', 'incident_beam', 'scattered_beam', 'L1', 'L2',
                  'two_theta'):
        @case(f'scn.{fname}', 'positions-far-off-origin')
        def _(P, A, O, rng, fname=fname):
            da = A(beamline_da(rng, tofs['tof-unsorted-zero-negative']()))
            return lambda: getattr(P.scn, fname)(da)

    @case('scn.Ltotal', 'positions-far-off-origin')
    def _(P, A, O, rng):
        da = A(beamline_da(rng, tofs['tof-unsorted-zero-negative']()))
        return lambda: (P.scn.Ltotal(da, scatter=True), P.scn.Ltotal(da, scatter=False))

    for facet, gv in gravities.items():
        @case('transform_coords[gravity graph]', facet)
        def _(P, A, O, rng, gv=gv):
            tof = _arr([9e3, 2e3, 4e3], 'us', dim='tof')
            da = A(beamline_da(rng, tof, gravity=gv))
            graph = {**P.GB.beamline(scatter=True), **P.GT.elastic_wavelength('tof'),
                     'two_theta': lambda incident_beam, scattered_beam, wavelength, gravity:
                         P.KB.scattering_angles_with_gravity(incident_beam, scattered_beam, wavelength, gravity)['two_theta']}
            graph = O(graph)
            return lambda: da.transform_coords(['two_theta'], graph=graph)

    # ------------------------------------------------ values a clean-up step would touch: non-finite, zero, masked
    nf = [np.nan, np.inf, -np.inf, 0.0, 3.0]
    nf_rows = [[0.0, 0.0, 0.0], [np.nan, 1.0, 1.0], [np.inf, 0.0, 1.0], [0.0, -0.0, -1e-300], [1.0, 2.0, 3.0]]

    @case('two_theta', 'zero-length-and-non-finite-beams')
    def _(P, A, O, rng):
        b1, b2 = A(_vec([0.0, 0.0, 25.0])), A(_vecs(nf_rows))
        return lambda: (P.KB.two_theta(incident_beam=b1, scattered_beam=b2), P.KB.L2(scattered_beam=b2))

    @case('two_theta', 'zero-length-incident-beam')
    def _(P, A, O, rng):
        b1, b2 = A(_vec([0.0, 0.0, 0.0])), A(_vecs(_scaled_rows(rng, far)))
        return lambda: P.KB.two_theta(incident_beam=b1, scattered_beam=b2)

    for fname in ('scattering_angles_with_gravity', 'scattering_angle_in_yz_plane'):
        @case(fname, 'gravity-zero')
        def _(P, A, O, rng, fname=fname):
            kw = gravity_args(A, rng, [0.0, 0.0, 0.0])
            return lambda: getattr(P.KB, fname)(**kw)

        @case(fname, 'non-finite-wavelength-and-beams')
        def _(P, A, O, rng, fname=fname):
            kw = gravity_args(A, rng, g_std)
            kw['wavelength'] = A(_arr(np.asarray(nf) * 1e-10, 'm'))
            kw['scattered_beam'] = A(_vecs(nf_rows))
            return lambda: getattr(P.KB, fname)(**kw)

    @case('beam_aligned_unit_vectors', 'gravity-zero-or-non-finite')
    def _(P, A, O, rng):
        b, g = A(_vec([0.0, 0.0, 25.0])), A(_vecs([[0.0, 0.0, 0.0], [0.0, np.nan, 0.0], [0.0, -np.inf, 0.0]], 'm/s^2'))
        return lambda: P.KB.beam_aligned_unit_vectors(incident_beam=b, gravity=g)

    kernels_1d = {  # kernel -> its arguments (name, unit); each gets non-finite / zero values in the canonical unit
        'wavelength_from_tof': [('tof', 'us'), ('Ltotal', 'm')],
        'energy_from_tof': [('tof', 'us'), ('Ltotal', 'm')],
        'dspacing_from_tof': [('tof', 'us'), ('Ltotal', 'm'), ('two_theta', 'rad')],
        'energy_transfer_direct_from_tof': [('tof', 'us'), ('L1', 'm'), ('L2', 'm'), ('incident_energy', 'meV')],
        'energy_transfer_indirect_from_tof': [('tof', 'us'), ('L1', 'm'), ('L2', 'm'), ('final_energy', 'meV')],
        'energy_from_wavelength': [('wavelength', 'angstrom')],
        'wavelength_from_energy': [('energy', 'meV')],
        'Q_from_wavelength': [('wavelength', 'angstrom'), ('two_theta', 'rad')],
        'wavelength_from_Q': [('Q', '1/angstrom'), ('two_theta', 'rad')],
        'dspacing_from_wavelength': [('wavelength', 'angstrom'), ('two_theta', 'rad')],
        'dspacing_from_energy': [('energy', 'meV'), ('two_theta', 'rad')],
    }
    for name, spec in kernels_1d.items():
        for dt in ('float64', 'float32'):
            @case(name, f'non-finite-and-zero[{dt}]')
            def _(P, A, O, rng, name=name, spec=spec, dt=dt):
                kw = {arg: A(_arr(rng.permutation(nf), unit, dtype=dt)) for arg, unit in spec}
                return lambda: getattr(P.KT, name)(**kw)

    @case('Q_elements_from_wavelength', 'zero-length-and-non-finite-beams')
    def _(P, A, O, rng):
        lam, b1, b2 = A(_arr(nf, 'angstrom')), A(_vec([0.0, 0.0, 0.0])), A(_vecs(nf_rows))
        return lambda: P.KT.Q_elements_from_wavelength(wavelength=lam, incident_beam=b1, scattered_beam=b2)

    @case('hkl_vec_from_Q_vec', 'singular-ub-matrix')
    def _(P, A, O, rng):
        q = A(_vecs(nf_rows, '1/angstrom'))
        ub = A(sc.spatial.linear_transform(value=[[1.0, 2.0, 3.0], [2.0, 4.0, 6.0], [0.0, 0.0, 0.0]], unit='1/angstrom'))
        rot = A(sc.spatial.rotations_from_rotvecs(_vec([0.0, 0.0, 0.0], 'rad')))
        return lambda: P.KT.hkl_vec_from_Q_vec(Q_vec=q, ub_matrix=ub, sample_rotation=rot)

    @case('propagate_times', 'non-finite-and-zero')
    def _(P, A, O, rng):
        t, w, d = A(_arr(nf, 's', dim='vertex')), A(_arr(nf[::-1], 'angstrom', dim='vertex')), A(_s(np.inf, 'm'))
        return lambda: P.CC.propagate_times(t, w, d)

    @case('Frame.chop', 'windows-non-finite')
    def _(P, A, O, rng):
        fr, ch = O(frame(P, A)), O(chopper(P, A, 8.0, 'm', [-np.inf, np.nan, 5e-3], [5e-3, 9e-3, np.inf]))
        return lambda: fr.chop(ch)

    @case('DiskChopper.time_offset_angle_at_beam', 'angle-non-finite')
    def _(P, A, O, rng):
        dc, ang = O(disk(P, A, *slit_sets['slits-unsorted'])), A(_arr(nf, 'rad', dim='slit'))
        return lambda: dc.time_offset_angle_at_beam(angle=ang, n_repetitions=2)

    @case('compute_transmission_map', 'beam-zero-length')
    def _(P, A, O, rng):
        return transmission(P, A, O, rng, beam=(0.0, 0.0, 0.0))

    @case('compute_transmission_map', 'beam-non-finite')
    def _(P, A, O, rng):
        return transmission(P, A, O, rng, beam=(0.0, np.nan, np.inf))

    @case('compute_transmission_map', 'detectors-and-wavelength-non-finite')
    def _(P, A, O, rng):
        return transmission(P, A, O, rng, beam=(0.0, 0.0, 25.0), det=_vecs(nf_rows, 'cm'),
                            wl=_arr([np.nan, np.inf, 0.0, 2.0], 'angstrom', dim='wavelength'))

    @case('Cylinder.beam_intersection', 'direction-zero-length-and-non-finite')
    def _(P, A, O, rng):
        cyl = O(cylinder(P, A, 'axis-not-normalised'))
        start, direction = A(_vecs(_scaled_rows(rng, [1e-3, 0.1, 0.3, 5.0, 1e3]), 'cm')), A(_vecs(nf_rows, 'one'))
        return lambda: cyl.beam_intersection(start, direction)

    def masked(da, rng, nan_at=()):
        d = da.dims[-1]
        da = da.copy()
        if nan_at:
            vals = da.values
            vals[..., list(nan_at)] = np.nan
        da.masks['m'] = sc.array(dims=[d], values=rng.random(da.sizes[d]) < 0.2)
        return da

    @case('find_plateaus', 'data-with-nan-and-masks')
    def _(P, A, O, rng):
        sig, atol = A(masked(signal(rng, np.arange(50)), rng, nan_at=(3, 27))), A(_s(0.01, 'Hz/s'))
        return lambda: P.filtering.find_plateaus(sig, atol=atol, min_n_points=3)

    @case('fit_peaks', 'data-with-masks')
    def _(P, A, O, rng):
        da, e, w = A(masked(spectrum(rng), rng)), A(_arr([4.0, 6.5], 'angstrom')), A(_s(2.0, 'angstrom'))
        return lambda: P.peaks.fit_peaks(da, peak_estimates=e, windows=w, background='linear', peak='gaussian')

    @case('remove_peaks', 'data-with-masks-and-nan')
    def _(P, A, O, rng):
        da = spectrum(rng)
        res = O(P.peaks.fit_peaks(da, peak_estimates=_arr([4.0, 6.5], 'angstrom'), windows=_s(2.0, 'angstrom'),
                                  background='linear', peak='gaussian'))
        nv = A(masked(sc.DataArray(sc.values(da.data), coords={'x': da.coords['x']}), rng, nan_at=(40, 41, 70)))
        return lambda: P.peaks.remove_peaks(nv, res)

    for tgt in ('wavelength', 'dspacing', 'Q', 'energy'):
        @case(f'convert[{tgt}]', 'masks-and-non-finite-tof')
        def _(P, A, O, rng, tgt=tgt):
            da = A(masked(beamline_da(rng, _arr([np.nan, 0.0, np.inf, 2e3], 'us', dim='tof')), rng, nan_at=(1,)))
            return lambda: P.scn.convert(da, 'tof', tgt, scatter=True)

    @case('save_xye', 'nan-and-masks')
    def _(P, A, O, rng):
        da = A(masked(powder(rng), rng, nan_at=(2,)))
        return lambda: P.save_xye(io.StringIO(), da)

    @case('CIF.with_reduced_powder_data+save', 'nan-and-masks')
    def _(P, A, O, rng):
        da = A(masked(powder(rng), rng, nan_at=(2,)))
        return lambda: P.cif.CIF('a').with_reduced_powder_data(da).save(io.StringIO())

    return cases


VALUE_CASES = _value_cases()
VALUE_PARTS = 1
LAYOUTS = ('plain', 'slice', 'strided')
NONCANON = sorted({f'noncanon:{e}:{f}' for e, f, _ in VALUE_CASES})


def value_grid(ctx, shard):
    """Every computational entry point with arguments that are not in canonical form (see above)."""
    import types

    import scippneutron as scn
    from scippneutron import peaks
    from scippneutron.absorption import Cylinder, Material, compute_transmission_map
    from scippneutron.atoms import ScatteringParams
    from scippneutron.chopper import DiskChopper, extract_chopper_from_nexus, filtering
    from scippneutron.conversion import beamline as KB
    from scippneutron.conversion import tof as KT
    from scippneutron.conversion.graph import beamline as GB
    from scippneutron.conversion.graph import tof as GT
    from scippneutron.io import cif, save_xye
    from scippneutron.io import sqw
    from scippneutron.tof import chopper_cascade as CC

    P = types.SimpleNamespace(scn=scn, peaks=peaks, Cylinder=Cylinder, Material=Material,
                              compute_transmission_map=compute_transmission_map, ScatteringParams=ScatteringParams,
                              DiskChopper=DiskChopper, extract_chopper_from_nexus=extract_chopper_from_nexus,
                              filtering=filtering, KB=KB, KT=KT, GB=GB, GT=GT, cif=cif, save_xye=save_xye, sqw=sqw, CC=CC)
    origin = {'v': 'value_grid'}
    mm = make_monitor(ctx, origin)
    tr = Tracer()
    part, nparts = shard.get('part', 0), shard.get('nparts', 1)
    try:
        with tr:
            for rep in range(shard['reps']):
                for k, (entry, facet, build) in enumerate(VALUE_CASES):
                    if k % nparts != part:
                        continue
                    reached = False
                    for li, layout in enumerate(LAYOUTS):
                        rng = np.random.Generator(np.random.PCG64([shard['seed'], 9009, rep, k, li]))
                        owned = []  # [object, fingerprint when the caller made it]

                        def A(obj, layout=layout, owned=owned):
                            arg, owner = _lay(layout, obj)
                            owned.append((arg, fp(arg)))
                            if owner is not None:
                                owned.append((owner, fp(owner)))
                            return arg

                        def O(obj, owned=owned):  # noqa: E743
                            owned.append((obj, fp(obj)))
                            return obj

                        label = f'{entry}[{facet},{layout}]'
                        j0 = mm.judged
                        try:
                            # the preparation of a case uses the package, too (constructors, a fit to get results)
                            thunk = build(P, A, O, rng)
                        except Exception as e:  # noqa: BLE001
                            ctx.count(f'noncanon case not built: {entry}:{facet}: {type(e).__name__}')
                            thunk = None
                        j1 = mm.judged
                        if thunk is not None:
                            try:
                                thunk()
                            except Exception as e:  # noqa: BLE001  (raising is allowed; writing while raising is not)
                                ctx.count(f'noncanon case raised: {entry}:{facet}: {type(e).__name__}')
                        changed = [o for o, was in owned if fp(o) != was]
                        if changed:
                            ctx.violation('owner_buffer_modified',
                                          f'{label}: {len(changed)} caller-owned object(s) handed to the call (an '
                                          'argument, or the buffer an argument is a slice of) changed',
                                          {'label': label, 'workload': 'value_grid',
                                           'changed': [describe(o) for o in changed[:3]]},
                                          function=entry)
                        ctx.event('noncanon_case')
                        ctx.case(('noncanon', entry, facet, layout), n=max(1, mm.judged - j0))
                        if thunk is not None and mm.judged > j1:
                            reached = True
                            ctx.hit('noncanon-layout:' + layout)
                    if reached:
                        ctx.hit(f'noncanon:{entry}:{facet}')
        for qn in mm.reached:
            ctx.classes.add('reached:' + qn)
        ctx.event('mutation_monitor.judged_calls', mm.judged)
        ctx.event('mutation_monitor.observed_calls', mm.events)
        ctx.extra['functions_armed'] = len(mm.functions)
        ctx.extra['value_grid_cases'] = len(VALUE_CASES)
    finally:
        mm.uninstall()


# =============================================================== oracle B ===
SENTINEL = object()


def _sentinel_fn(**kw):
    return None


def mutate(obj, depth=0):
    """Do to a returned object what a caller can do through its public surface. Returns #mutations."""
    n = 0
    if depth > 3 or obj is None or isinstance(obj, _Frozen):
        return 0
    if isinstance(obj, sc.Variable):
        try:
            if obj.dtype in (sc.DType.float64, sc.DType.float32, sc.DType.int64, sc.DType.int32):
                obj *= 2
                obj += 1
                return 1
        except Exception:  # noqa: BLE001  (read-only: fine)
            return 0
        return 0
    if isinstance(obj, dict):
        keys = list(obj.keys())
        try:
            if keys:
                for k in keys[:2]:
                    n += mutate(obj[k], depth + 1)
                obj[keys[0]] = _sentinel_fn
                del obj[keys[-1]]
                n += 2
            obj['__injected__'] = _sentinel_fn
            n += 1
        except Exception:  # noqa: BLE001
            pass
        return n
    if isinstance(obj, list):
        for x in obj[:2]:
            n += mutate(x, depth + 1)
        try:
            obj.append(obj[0] if obj else 'injected')
            if len(obj) > 1:
                del obj[0]
            n += 1
        except Exception:  # noqa: BLE001
            pass
        return n
    if isinstance(obj, set):
        obj.add('__injected__')
        if len(obj) > 1:
            obj.pop()
        return 1
    if isinstance(obj, tuple | str | int | float | frozenset):
        return 0
    # objects: public attributes, properties and dataclass fields
    names = [a for a in dir(obj) if not a.startswith('_')]
    for a in names:
        try:
            v = getattr(obj, a)
        except Exception:  # noqa: BLE001
            continue
        if callable(v) and not isinstance(v, sc.Variable):
            continue
        if isinstance(v, sc.Variable | dict | list | set):
            n += mutate(v, depth + 1)
        elif isinstance(v, str) and a in ('name', 'comment'):
            try:
                setattr(obj, a, v + 'X')
                n += 1
            except Exception:  # noqa: BLE001
                pass
    add = getattr(obj, 'add', None)
    if callable(add) and type(obj).__name__ == 'Block':
        try:
            add({'injected.tag': 'v'})
            n += 1
        except Exception:  # noqa: BLE001
            pass
    return n


def family_graphs():
    import scippneutron as scn
    from scippneutron.conversion.graph import beamline as GB
    from scippneutron.conversion.graph import tof as GT
    from scippneutron.core import conversions as CV

    da = sc.DataArray(sc.ones(dims=['x'], shape=[2]), coords={'tof': sc.arange('x', 1.0, 3.0, unit='us')})
    F = {}
    for s in ('tof', 'wavelength', 'energy', 'Q'):
        F[f'elastic({s})'] = lambda s=s: GT.elastic(s)
    F['kinematic(tof)'] = lambda: GT.kinematic('tof')
    for s in ('tof', 'wavelength', 'energy'):
        F[f'elastic_dspacing({s})'] = lambda s=s: GT.elastic_dspacing(s)
    for s in ('tof', 'wavelength'):
        F[f'elastic_energy({s})'] = lambda s=s: GT.elastic_energy(s)
        F[f'elastic_Q({s})'] = lambda s=s: GT.elastic_Q(s)
        F[f'elastic_Q_vec({s})'] = lambda s=s: GT.elastic_Q_vec(s)
        F[f'elastic_hkl({s})'] = lambda s=s: GT.elastic_hkl(s)
    for s in ('tof', 'energy', 'Q'):
        F[f'elastic_wavelength({s})'] = lambda s=s: GT.elastic_wavelength(s)
    F['direct_inelastic(tof)'] = lambda: GT.direct_inelastic('tof')
    F['indirect_inelastic(tof)'] = lambda: GT.indirect_inelastic('tof')
    for sflag in (True, False):
        F[f'beamline({sflag})'] = lambda sflag=sflag: GB.beamline(scatter=sflag)
        F[f'Ltotal({sflag})'] = lambda sflag=sflag: GB.Ltotal(scatter=sflag)
    for nm in ('incident_beam', 'scattered_beam', 'two_theta', 'L1', 'L2'):
        F[f'graph.{nm}()'] = lambda nm=nm: getattr(GB, nm)()
    F['conversion_graph(tof,dspacing,True,elastic)'] = lambda: CV.conversion_graph('tof', 'dspacing', True, 'elastic')
    F['conversion_graph(tof,L1,True,elastic)'] = lambda: CV.conversion_graph('tof', 'L1', True, 'elastic')
    F['conversion_graph(tof,wavelength,False,elastic)'] = lambda: CV.conversion_graph('tof', 'wavelength', False, 'elastic')
    F['conversion_graph(tof,energy_transfer,True,direct)'] = lambda: CV.conversion_graph('tof', 'energy_transfer', True, 'direct_inelastic')
    F['deduce_conversion_graph(da,tof,Q,True)'] = lambda: scn.deduce_conversion_graph(da, 'tof', 'Q', True)
    return F, fp


def family_atoms():
    from scippneutron.atoms import Atom, ScatteringParams, reference_wavelength

    F = {}
    for name in ('H', '2H', 'V', '50V', 'Si'):
        F[f'Atom.for_isotope({name})'] = lambda name=name: Atom.for_isotope(name)
        F[f'ScatteringParams.for_isotope({name})'] = lambda name=name: ScatteringParams.for_isotope(name)
    F['reference_wavelength()'] = reference_wavelength

    def view(o):
        # observable state: every public field / property value
        out = {}
        for a in dir(o):
            if a.startswith('_'):
                continue
            try:
                v = getattr(o, a)
            except Exception as e:  # noqa: BLE001
                v = ('raises', type(e).__name__)
            if callable(v) and not isinstance(v, sc.Variable):
                continue
            out[a] = v
        return fp(out) if not isinstance(o, sc.Variable) else fp(o)
    return F, view


def family_models():
    from scippneutron.peaks import model as M

    g = M.GaussianModel(prefix='a_')
    p = M.PolynomialModel(degree=2, prefix='b_')
    lz = M.LorentzianModel(prefix='a_l_')
    c = g + p
    x = sc.linspace('x', -1.0, 1.0, 7, unit='one')

    def params(m):
        out = {}
        for nme in sorted(m.param_names):
            base = nme.split('_')[-1]
            if base in ('loc', 'scale'):
                out[nme] = sc.scalar(0.3)
            elif base.startswith('a') and base[1:].isdigit():
                out[nme] = sc.scalar(0.5)
            elif base == 'fraction':
                out[nme] = sc.scalar(0.4)
            else:
                out[nme] = sc.scalar(2.0)
        return out

    def view(o):
        if isinstance(o, M.Model):
            return fp((type(o).__name__, o.prefix, sorted(o.param_names), sorted(o.param_bounds.items()),
                       o(x, **params(o))))
        return fp(sorted(o) if isinstance(o, set) else o)

    F = {
        'g.with_prefix(x_)': lambda: g.with_prefix('x_'),
        'c.with_prefix(y_)': lambda: c.with_prefix('y_'),
        'p.with_prefix()': lambda: p.with_prefix(''),
        'g + p': lambda: g + p,
        'c + lz': lambda: c + lz,
        'g.param_names': lambda: g.param_names,
        'c.param_names': lambda: c.param_names,
        'g.param_bounds': lambda: g.param_bounds,
        'c.param_bounds': lambda: c.param_bounds,
        'lz.param_bounds': lambda: lz.param_bounds,
    }
    return F, view


def family_cif():
    from scippneutron.io import cif
    from scippneutron.metadata import Beamline, Person

    rng = np.random.Generator(np.random.PCG64(5))
    da = sc.DataArray(sc.array(dims=['tof'], values=rng.random(4), variances=rng.random(4) * 0.01),
                      coords={'tof': sc.arange('tof', 4.0, unit='us')})
    person = Person(name='Jane Doe', email='jane@example.com', corresponding=True)
    bl = Beamline(name='DREAM', facility='ESS')
    base = cif.CIF('base', comment='c').with_reducers('prog v1').with_reduced_powder_data(da)
    block = cif.Block('blk', [{'audit.creation_method': 'x'}, cif.Loop({'a.b': sc.arange('i', 3.0, unit='m')})],
                      comment='hello')

    def view(o):
        buf = io.StringIO()
        if isinstance(o, cif.CIF):
            o.save(buf)
        else:
            cif.save_cif(buf, o)
        text = buf.getvalue()
        # the audit block records the current date: drop that line
        return fp([ln for ln in text.splitlines() if 'audit.creation_date' not in ln])

    F = {
        'base.copy()': lambda: base.copy(),
        'base.with_reducers': lambda: base.with_reducers('other'),
        'base.with_authors': lambda: base.with_authors(person),
        'base.with_beamline': lambda: base.with_beamline(bl),
        'base.with_reduced_powder_data': lambda: base.with_reduced_powder_data(da, comment='again'),
        'base.with_powder_calibration': lambda: base.with_powder_calibration(
            sc.DataArray(sc.array(dims=['cal'], values=[1.0, 2.0]), coords={'power': sc.array(dims=['cal'], values=[0, 1])})),
        'block.copy()': lambda: block.copy(),
    }
    return F, view


def family_frames():
    """Frames computed from a frame sequence (lookups by distance, propagation, chopping): every call
    computes a new frame; what a caller does to it must not reach the sequence or later lookups.
    (Index access ``seq[i]`` and the frame lists of derived sequences hand out the stored frames by
    design and are not part of this family.)"""
    from scippneutron.tof import chopper_cascade as CC

    def m(x):
        return sc.scalar(float(x), unit='m')

    def chopper(d, t0=0.0):
        return CC.Chopper(distance=m(d), time_open=sc.array(dims=['cutout'], values=[t0, t0 + 0.02], unit='s'),
                          time_close=sc.array(dims=['cutout'], values=[t0 + 0.01, t0 + 0.03], unit='s'))

    src = CC.FrameSequence.from_source_pulse(
        time_min=sc.scalar(0.0, unit='s'), time_max=sc.scalar(0.003, unit='s'),
        wavelength_min=sc.scalar(0.5, unit='angstrom'), wavelength_max=sc.scalar(12.0, unit='angstrom'))
    seq = src.chop([chopper(8.0, 0.004), chopper(15.0, 0.01)]).propagate_to(m(30.0))
    F = {
        'seq[source distance]': lambda: seq[m(0.0)],
        'seq[first chopper distance]': lambda: seq[m(8.0)],
        'seq[second chopper distance]': lambda: seq[m(15.0)],
        'seq[last distance]': lambda: seq[m(30.0)],
        'seq[last distance in mm]': lambda: seq[sc.scalar(30000.0, unit='mm')],
        'seq[between]': lambda: seq[m(11.0)],
        'seq[beyond]': lambda: seq[m(45.0)],
        'frame.propagate_to(own distance)': lambda: seq.frames[1].propagate_to(m(8.0)),
        'frame.propagate_to(further)': lambda: seq.frames[1].propagate_to(m(9.5)),
        'frame.chop(at own distance)': lambda: seq.frames[2].chop(chopper(15.0, 0.012)),
        'frame.chop(further)': lambda: seq.frames[2].chop(chopper(20.0, 0.02)),
        'seq.propagate_to(last distance)[-1]': lambda: seq.propagate_to(m(30.0)).frames[-1],
        'seq.propagate_to(further)[-1]': lambda: seq.propagate_to(m(40.0)).frames[-1],
        'seq.chop([at last distance])[-1]': lambda: seq.chop([chopper(30.0, 0.03)]).frames[-1],
        'frame.bounds()': lambda: seq.frames[2].bounds(),
        'frame.subbounds()': lambda: seq.frames[2].subbounds(),
        'seq (stored frames)': lambda: _Frozen(seq),
    }
    def rebind(obj, depth=0):
        """What a caller does to a frame it was given: reassign its fields and edit its lists.  The vertex
        arrays themselves are left alone: a propagated subframe shares its wavelength array with the
        subframe it was computed from (Subframe.propagate_by), by design."""
        n = 0
        if isinstance(obj, CC.Frame):
            for sub in obj.subframes[:2]:
                n += rebind(sub)
            obj.distance = obj.distance * 2.0
            if obj.subframes:
                del obj.subframes[0]
            obj.subframes.append(CC.Subframe(time=sc.array(dims=['vertex'], values=[0.0, 1.0, 1.0], unit='s'),
                                             wavelength=sc.array(dims=['vertex'], values=[1.0, 1.0, 2.0],
                                                                 unit='angstrom')))
            return n + 3
        if isinstance(obj, CC.Subframe):
            obj.time = obj.time * 2.0
            obj.wavelength = obj.wavelength + sc.scalar(1.0, unit='angstrom')
            return 2
        if isinstance(obj, sc.DataGroup):
            for k in list(obj.keys()):
                obj[k] = obj[k] * 2.0
                n += 1
            return n
        return 0

    return F, (lambda o: fp(o.obj) if isinstance(o, _Frozen) else fp(o)), rebind


class _Frozen:
    """A view-only entry of a history family: its value is fingerprinted but never handed to mutate()."""

    def __init__(self, obj):
        self.obj = obj


FAMILIES = {'graphs': family_graphs, 'atoms': family_atoms, 'models': family_models, 'cif': family_cif,
            'frames': family_frames}


def history(ctx, shard):
    fam = shard['family']
    made = FAMILIES[fam]()
    F, view = made[:2]
    mutate_result = made[2] if len(made) > 2 else mutate
    names = list(F)
    pristine = {}
    for nme in names:
        try:
            pristine[nme] = view(F[nme]())
        except Exception as e:  # noqa: BLE001
            ctx.count(f'factory unusable: {nme}: {type(e).__name__}')
            pristine[nme] = None
    names = [nme for nme in names if pristine[nme] is not None]
    alphabet = [('call', nme) for nme in names] + [('mutate', k) for k in range(2)]
    maxlen = shard['maxlen']
    first = shard.get('first')  # shard over the first symbol
    total = 0
    poisoned_by = None
    for L in range(1, maxlen + 1):
        for seq in itertools.product(range(len(alphabet)), repeat=L):
            if first is not None and seq[0] % shard['nfirst'] != first:
                continue
            # a mutate symbol needs an earlier result to act on
            results = []
            valid = True
            nmut = 0
            for s in seq:
                kind, arg = alphabet[s]
                if kind == 'call':
                    try:
                        results.append(F[arg]())
                    except Exception as e:  # noqa: BLE001
                        ctx.violation('factory_raised', f'{arg} raised {type(e).__name__} after history: {e}',
                                      {'family': fam, 'sequence': [alphabet[i] for i in seq]}, factory=arg)
                        valid = False
                        break
                else:
                    if arg >= len(results):
                        valid = False
                        break
                    nmut += mutate_result(results[arg])
            if not valid:
                continue
            total += 1
            bad = []
            for nme in names:
                try:
                    now = view(F[nme]())
                except Exception as e:  # noqa: BLE001
                    now = ('raises', type(e).__name__)
                if now != pristine[nme]:
                    bad.append(nme)
            ctx.event('history_sequence')
            if nmut:
                ctx.event('history_sequence_with_mutation')
            ctx.case((fam, seq))
            if total <= 2:
                ctx.sample({'family': fam, 'sequence': [list(alphabet[i]) for i in seq], 'mutations_applied': nmut})
            if bad:
                readable = [list(alphabet[i]) for i in seq]
                for nme in bad[:3]:
                    ctx.violation('history_dependence',
                                  f'{nme} no longer returns its pristine value after the history {readable}',
                                  {'family': fam, 'sequence': readable, 'affected': bad, 'mutations_applied': nmut},
                                  family=fam, factory=nme.split('(')[0], needs_mutation=bool(nmut))
                # the shared state is poisoned for the rest of this process: stop this family here
                poisoned_by = readable
                break
        if poisoned_by:
            break
    ctx.extra[f'history_{fam}' + (f'_part{first}' if first is not None else '')] = {'factories': names, 'alphabet': len(alphabet), 'sequences': total,
                                   'max_length': maxlen, 'stopped_after_poisoning': poisoned_by}
    ctx.extra['exhaustive_subspace'] = ('oracle B only: all call/mutate histories up to the stated max_length per '
                                        'family (see history_* entries); oracle A is sampled')


# ================================================================ pytest ===
def pytest_shard(ctx, shard):
    """Repository tests with the mutation monitor armed (thorough tier)."""
    out = tempfile.mkdtemp(prefix='rv-c09-pytest-')
    env = dict(os.environ, RV_MUTMON_OUT=out)
    here = os.path.dirname(os.path.dirname(os.path.dirname(os.path.abspath(__file__))))
    repo = os.path.dirname(os.environ.get('RV_REPO_SRC', '/repo/src'))
    cmd = [sys.executable, '-m', 'pytest', '-q', '-p', 'no:cacheprovider', '-p', 'rv.pytest_monitor',
           '--continue-on-collection-errors', '-x' if False else '-q', *shard['paths']]
    try:
        p = subprocess.run(cmd, cwd=repo, env=env, capture_output=True, text=True, timeout=3000)
        tail = (p.stdout or '')[-300:]
        ctx.extra.setdefault('pytest_tail', []).append(tail.strip().splitlines()[-1] if tail.strip() else '')
        for f in glob.glob(os.path.join(out, '*.json')):
            with open(f) as fh:
                rep = json.load(fh)
            ctx.event('mutation_monitor.judged_calls', rep['judged'])
            ctx.event('mutation_monitor.observed_calls', rep['events'])
            ctx.event('pytest_tests', rep.get('tests', 0))
            for qn in rep['reached']:
                ctx.classes.add('reached:' + qn)
            for r in rep['reports']:
                ctx.violation('argument_mutated', r['what'], dict(r['case'], workload='pytest:' + ' '.join(shard['paths'])),
                              **r['keys'])
            ctx.case(('pytest', tuple(shard['paths'])), n=max(1, rep['judged']))
    except subprocess.TimeoutExpired:
        ctx.inconclusive_because('pytest under the mutation monitor hit the watchdog')
    finally:
        import shutil
        shutil.rmtree(out, ignore_errors=True)


# ================================================================ driver ===
def plan(tier, seed):
    shards = [{'kind': 'alias', 'reps': 1 if tier == 'quick' else 4}]
    for part in range(VALUE_PARTS):
        shards.append({'kind': 'values', 'reps': 1 if tier == 'quick' else 3, 'part': part, 'nparts': VALUE_PARTS})
    for m in REUSE:
        shards.append({'kind': 'reuse', 'module': m, 'n_sub': 1 if tier == 'quick' else 3})
    for fam in HISTORY_FAMILIES:
        if fam == 'graphs':
            nfirst = 4 if tier == 'quick' else 8
            for f in range(nfirst):
                shards.append({'kind': 'history', 'family': fam, 'maxlen': 2 if tier == 'quick' else 3,
                               'first': f, 'nfirst': nfirst})
        else:
            shards.append({'kind': 'history', 'family': fam, 'maxlen': 3 if fam not in ('cif', 'frames') or tier != 'quick' else 2})
    if tier == 'thorough':
        for pth in PYTEST_DIRS:
            shards.append({'kind': 'pytest', 'paths': [pth]})
    return shards


def requirements(tier):
    return {'events': {'mutation_monitor.judged_calls': 5000, 'alias_case': 100, 'history_sequence': 1000,
                       'history_sequence_with_mutation': 200, 'noncanon_case': len(LAYOUTS) * len(VALUE_CASES)},
            'forced': [*NONCANON, *('noncanon-layout:' + x for x in LAYOUTS)]}


def run(shard, ctx):
    t0 = time.time()
    if shard['kind'] == 'alias':
        alias_grid(ctx, shard)
    elif shard['kind'] == 'values':
        value_grid(ctx, shard)
    elif shard['kind'] == 'reuse':
        reuse_shard(ctx, shard)
    elif shard['kind'] == 'history':
        history(ctx, shard)
    elif shard['kind'] == 'pytest':
        pytest_shard(ctx, shard)
    ctx.extra['shard_wall:' + shard['kind'] + ':' + str(shard.get('module') or shard.get('family') or shard.get('paths') or '') + ':' + str(shard.get('first', ''))] = round(time.time() - t0, 1)


FINDING_PREDICATES = {}

TECHNIQUE = ('universal argument-mutation monitor (sys.monitoring on every code object of the computational modules, '
             'bit-exact before/after fingerprints at the outermost frame) riding on all workloads; exhaustive '
             'history checker over call/mutate sequences of length <= 3 against pristine references')
LEVEL_TEXT = ('exploration with an exhaustive part: (A) every call that crosses the package boundary in the hostile '
              'workloads of all other properties, in a dedicated aliasing grid (arguments already in the converted-to '
              'unit/dtype, slices of caller-owned buffers), in a value grid (arguments not in the canonical form the '
              'code normalises to: a forced class per entry point and facet, three buffer layouts) and, in the thorough tier, in the repository test-suite, has '
              'all its argument objects fingerprinted bit-exactly before and after; (B) for graph factories, table '
              'lookups, model and CIF builder combinators all call/mutate histories up to length 3 (thorough; 2 for the '
              'large graph family in quick) are enumerated and every factory must keep returning its pristine value.')
LEVEL_NOTE = ('trusted: blake2 fingerprints of raw buffers (rv/snap.py); exemption list of sinks and self-mutators '
              'in rv/mutmon.py; mutations limited to what the public surface of a result allows')
DESIGN_REF = 'DESIGN.md section 4, C09'
