"""C09 Computations never modify their arguments; results do not depend on call history."""

from __future__ import annotations

import glob
import importlib
import io
import itertools
import json
import os
import subprocess
import sys
import tempfile
import time

import numpy as np
import scipp as sc

from rv.ctx import Ctx
from rv.mutmon import MutationMonitor
from rv.snap import describe, fp
from rv.trace import Tracer

ID = 'C09'
LEVEL = 'exploration'
RULE = (
    'oracle A (mutation): every function/method of the computational modules is observed through its code '
    'object; at the outermost observed frame all argument objects are fingerprinted bit-exactly at entry and at '
    'return. Workloads: (1) the hostile workloads of the other property modules re-run with this monitor riding '
    'along, (2) an aliasing grid: entry points called with arguments already in the unit/dtype the function '
    'converts to (so internal copy=False conversions alias), as plain arrays and as slices of '
    'larger caller-owned arrays, (3) thorough only: the repository test-suite with the monitor armed. '
    'oracle B (history): for each family of factories/lookups a pristine reference is taken, then ALL sequences '
    'of length <= 3 over {call factory i, mutate the k-th earlier result through its public surface} are '
    'enumerated and after each sequence every factory must still return its pristine value. '
    'distinct = (function, argument layout) for A, sequences for B'
)
ASSUMPTIONS = [
    'file-like objects and explicitly documented sinks/self-mutators (builders add_*, __init__, setters) are exempt',
    'the history oracle covers the object kinds the property names: graph factories, model and builder '
    'combinators, bundled-table lookups; persistent sharing inside FrameSequence is reported, not judged',
]
REUSE = ['c01', 'c02', 'c03', 'c04', 'c05', 'c06', 'c07', 'c08', 'c10', 'c11', 'c12', 'c13', 'c14', 'c15', 'c16',
         'c17', 'c18', 'c19', 'c20']
try:
    import matplotlib

    matplotlib.use('Agg')
    _HAVE_MPL = True
except Exception:  # noqa: BLE001
    _HAVE_MPL = False


def _close_fig(res):
    import matplotlib.pyplot as plt

    plt.close('all')
    return res


HISTORY_FAMILIES = ['graphs', 'atoms', 'models', 'cif', 'frames']
PYTEST_DIRS = ['tests/conversion', 'tests/convert_test.py', 'tests/beamline_components_test.py', 'tests/chopper',
               'tests/tof', 'tests/peaks', 'tests/absorption', 'tests/io', 'tests/atoms', 'tests/metadata']


# =============================================================== oracle A ===
def make_monitor(ctx, origin):
    def report(kind, what, case, **keys):
        ctx.violation(kind, what, dict(case, workload=origin['v']), **keys)
    mm = MutationMonitor(report)
    mm.install()
    return mm


def reuse_shard(ctx, shard):
    """Re-run the first shards of another property's quick workload under the mutation monitor."""
    origin = {'v': 'reuse:' + shard['module']}
    mm = make_monitor(ctx, origin)
    try:
        try:
            mod = importlib.import_module('rv.props.' + shard['module'])
        except Exception as e:  # noqa: BLE001
            ctx.count('reuse module unavailable: ' + shard['module'])
            ctx.extra.setdefault('unavailable', []).append(f'{shard["module"]}: {e}')
            return
        plans = mod.plan('quick', shard['seed'])
        todo = plans[: shard.get('n_sub', 1)]
        for i, sh in enumerate(todo):
            sub = dict(sh, tier='quick', seed=shard['seed'], index=i)
            scratch = Ctx(shard['module'], 'quick', shard['seed'], sub)
            e0, j0 = mm.events, mm.judged
            try:
                mod.run(sub, scratch)
            except Exception as e:  # noqa: BLE001
                ctx.count('reuse workload crashed: ' + shard['module'])
                ctx.extra.setdefault('crashed', []).append(f'{shard["module"]}: {type(e).__name__}: {e}')
            ctx.event('mutation_monitor.judged_calls', mm.judged - j0)
            ctx.event('mutation_monitor.observed_calls', mm.events - e0)
            ctx.case(('reuse', shard['module'], i), n=max(1, mm.judged - j0))
        for qn in mm.reached:
            ctx.classes.add('reached:' + qn)
        ctx.extra['functions_armed'] = len(mm.functions)
    finally:
        mm.uninstall()


def _views(rng, values, unit, dtype, dims=('x',)):
    """The same logical array as: plain, a slice of a larger caller-owned array, a strided slice."""
    values = np.asarray(values)
    out = []
    plain = sc.array(dims=list(dims), values=values, unit=unit, dtype=dtype)
    out.append(('plain', plain, None))
    pad = 3
    big = np.concatenate([np.full((pad,) + values.shape[1:], 7, dtype=values.dtype), values,
                          np.full((pad,) + values.shape[1:], 9, dtype=values.dtype)])
    owner = sc.array(dims=list(dims), values=big, unit=unit, dtype=dtype)
    out.append(('slice', owner[dims[0], pad:pad + len(values)], owner))
    return out


def alias_grid(ctx, shard):
    """Arguments already in the unit and dtype the function converts to."""
    import scippneutron as scn
    from scippneutron import peaks
    from scippneutron.absorption import Cylinder, Material, compute_transmission_map
    from scippneutron.atoms import ScatteringParams
    from scippneutron.chopper import DiskChopper
    from scippneutron.chopper import filtering
    from scippneutron.conversion import beamline as KB
    from scippneutron.conversion import tof as KT
    from scippneutron.io import cif, save_xye
    from scippneutron.tof import chopper_cascade as CC

    origin = {'v': 'alias_grid'}
    mm = make_monitor(ctx, origin)
    rng = np.random.Generator(np.random.PCG64([shard['seed'], shard['index'], 9]))
    tr = Tracer()
    n = 6

    def call(label, f, owners=()):
        before = [fp(o) for o in owners if o is not None]
        j0 = mm.judged
        try:
            f()
        except Exception as e:  # noqa: BLE001
            ctx.count(f'alias case raised: {label}: {type(e).__name__}')
        after = [fp(o) for o in owners if o is not None]
        # the part of a caller-owned buffer *outside* the slice that was passed must not change either
        if before != after:
            ctx.violation('owner_buffer_modified', f'{label}: a caller-owned object reachable from the call (owner of a sliced argument, or handed to an earlier builder call) changed',
                          {'label': label, 'workload': 'alias_grid'}, function=label)
        ctx.event('alias_case')
        ctx.case(('alias', label), n=max(1, mm.judged - j0))

    try:
        with tr:
            for rep in range(shard['reps']):
                for dt in ('float64', 'float32'):
                    # ---- gravity: beams in m, gravity in m/s^2  => the internal wavelength unit is m
                    b1 = sc.vector([0.0, 0.0, 10.0], unit='m')
                    g = sc.vector([0.0, -9.80665, 0.0], unit='m/s^2')
                    det = rng.normal(size=(n, 3)) + [0, 0.2, 4]
                    for lbl_b, b2, own_b in [('plain', sc.vectors(dims=['x'], values=det, unit='m'), None)] + [
                            ('slice', (ob := sc.vectors(dims=['x'], values=np.vstack([det, det]), unit='m'))['x', 2:2 + n], ob)]:
                        for lbl, lam, own in _views(rng, rng.uniform(1, 10, size=n) * 1e-10, 'm', dt):
                            for tilt in (0.0, 0.3):
                                bb = b1 if tilt == 0 else sc.vector([0.0, 10 * np.sin(tilt), 10 * np.cos(tilt)], unit='m')
                                call(f'scattering_angles_with_gravity[{dt},{lbl},{lbl_b},tilt={tilt}]',
                                     lambda bb=bb, b2=b2, lam=lam: KB.scattering_angles_with_gravity(
                                         incident_beam=bb, scattered_beam=b2, wavelength=lam, gravity=g), (own, own_b))
                            call(f'scattering_angle_in_yz_plane[{dt},{lbl},{lbl_b}]',
                                 lambda b2=b2, lam=lam: KB.scattering_angle_in_yz_plane(
                                     incident_beam=b1, scattered_beam=b2, wavelength=lam, gravity=g), (own, own_b))
                        call(f'two_theta[{lbl_b}]', lambda b2=b2: KB.two_theta(incident_beam=b2, scattered_beam=b2),
                             (own_b,))
                        call(f'L2[{lbl_b}]', lambda b2=b2: KB.L2(scattered_beam=b2), (own_b,))
                    # binned wavelength in the internal unit
                    from rv import operands as ops
                    sizes = rng.integers(0, 4, size=n)
                    lamb = ops.make_binned((rng.uniform(1, 10, size=int(sizes.sum())) * 1e-10).astype(dt), sizes,
                                           ['x'], (n,), 'm', dtype=dt)
                    call(f'scattering_angles_with_gravity[{dt},binned]',
                         lambda: KB.scattering_angles_with_gravity(
                             incident_beam=b1, scattered_beam=sc.vectors(dims=['x'], values=det, unit='m'),
                             wavelength=lamb, gravity=g))
                    # ---- tof kernels with operands in the unit of the folded constant
                    for lbl, tof, own in _views(rng, rng.uniform(1e3, 1e4, size=n), 'us', dt):
                        L = sc.array(dims=['x'], values=rng.uniform(10, 20, size=n), unit='m', dtype=dt)
                        tt = sc.array(dims=['x'], values=rng.uniform(0.1, 3, size=n), unit='rad', dtype=dt)
                        E = sc.array(dims=['x'], values=rng.uniform(10, 20, size=n), unit='meV', dtype=dt)
                        call(f'wavelength_from_tof[{dt},{lbl}]', lambda: KT.wavelength_from_tof(tof=tof, Ltotal=L), (own,))
                        call(f'dspacing_from_tof[{dt},{lbl}]', lambda: KT.dspacing_from_tof(tof=tof, Ltotal=L, two_theta=tt), (own,))
                        call(f'energy_from_tof[{dt},{lbl}]', lambda: KT.energy_from_tof(tof=tof, Ltotal=L), (own,))
                        call(f'energy_transfer_direct[{dt},{lbl}]',
                             lambda: KT.energy_transfer_direct_from_tof(tof=tof * 10, L1=L, L2=L, incident_energy=E), (own,))
                        call(f'energy_transfer_indirect[{dt},{lbl}]',
                             lambda: KT.energy_transfer_indirect_from_tof(tof=tof * 10, L1=L, L2=L, final_energy=E), (own,))
                    for lbl, lam, own in _views(rng, rng.uniform(1, 10, size=n), 'angstrom', dt):
                        tt = sc.array(dims=['x'], values=rng.uniform(0.1, 3, size=n), unit='rad', dtype=dt)
                        call(f'energy_from_wavelength[{dt},{lbl}]', lambda: KT.energy_from_wavelength(wavelength=lam), (own,))
                        call(f'Q_from_wavelength[{dt},{lbl}]', lambda: KT.Q_from_wavelength(wavelength=lam, two_theta=tt), (own,))
                        call(f'dspacing_from_wavelength[{dt},{lbl}]', lambda: KT.dspacing_from_wavelength(wavelength=lam, two_theta=tt), (own,))
                        Q = KT.Q_from_wavelength(wavelength=lam, two_theta=tt).copy()
                        call(f'wavelength_from_Q[{dt},{lbl}]', lambda: KT.wavelength_from_Q(Q=Q, two_theta=tt))
                        call(f'propagate_times[{dt},{lbl}]', lambda: CC.propagate_times(
                            sc.array(dims=['x'], values=rng.uniform(0, 1e-3, size=n), unit='s', dtype=dt), lam,
                            sc.scalar(10.0, unit='m')), (own,))
                    for lbl, en, own in _views(rng, rng.uniform(1, 100, size=n), 'meV', dt):
                        tt = sc.array(dims=['x'], values=rng.uniform(0.1, 3, size=n), unit='rad', dtype=dt)
                        call(f'wavelength_from_energy[{dt},{lbl}]', lambda: KT.wavelength_from_energy(energy=en), (own,))
                        call(f'dspacing_from_energy[{dt},{lbl}]', lambda: KT.dspacing_from_energy(energy=en, two_theta=tt), (own,))
                # ---- chopper cascade: Subframe keeps time in s / wavelength in angstrom without copying
                t = sc.array(dims=['vertex'], values=[0.0, 3e-3, 3e-3, 0.0], unit='s')
                w = sc.array(dims=['vertex'], values=[1.0, 1.0, 8.0, 8.0], unit='angstrom')
                fr = CC.Frame(distance=sc.scalar(0.0, unit='m'), subframes=[CC.Subframe(time=t, wavelength=w)])
                ch = CC.Chopper(distance=sc.scalar(8.0, unit='m'),
                                time_open=sc.array(dims=['cutout'], values=[5e-3, 15e-3], unit='s'),
                                time_close=sc.array(dims=['cutout'], values=[9e-3, 20e-3], unit='s'))
                call('Frame.chop', lambda: fr.chop(ch))
                call('Frame.propagate_to', lambda: fr.propagate_to(sc.scalar(20.0, unit='m')))
                chopped = fr.chop(ch)
                call('Frame.bounds', lambda: chopped.bounds())
                call('Frame.subbounds', lambda: chopped.subbounds())
                fs = CC.FrameSequence.from_source_pulse(time_min=sc.scalar(0.0, unit='s'), time_max=sc.scalar(3e-3, unit='s'),
                                                        wavelength_min=sc.scalar(1.0, unit='angstrom'),
                                                        wavelength_max=sc.scalar(8.0, unit='angstrom'))
                call('FrameSequence.chop', lambda: fs.chop([ch]))
                call('FrameSequence.propagate_to', lambda: fs.propagate_to(sc.scalar(30.0, unit='m')))
                call('FrameSequence.__getitem__', lambda: fs.chop([ch])[sc.scalar(12.0, unit='m')])
                call('Chopper.__getitem__', lambda: ch['cutout', 0:1])
                call('Chopper.__getitem__[int]', lambda: fr.chop(ch['cutout', 1:2]))
                if _HAVE_MPL:
                    seq = fs.chop([ch]).propagate_to(sc.scalar(30.0, unit='m'))
                    call('FrameSequence.acceptance_diagram', lambda: _close_fig(seq.acceptance_diagram()), (seq,))
                    call('FrameSequence.draw', lambda: _close_fig(seq.draw()), (seq,))
                # ---- disk chopper with angles already in rad float64
                dc = DiskChopper(axle_position=sc.vector([0, 0, 8.0], unit='m'), frequency=sc.scalar(14.0, unit='Hz'),
                                 beam_position=sc.scalar(0.0, unit='rad'), phase=sc.scalar(0.5, unit='rad'),
                                 slit_begin=sc.array(dims=['slit'], values=[0.0, 2.0], unit='rad'),
                                 slit_end=sc.array(dims=['slit'], values=[1.0, 3.0], unit='rad'))
                pf = sc.scalar(14.0, unit='Hz')
                call('DiskChopper.time_offset_open', lambda: dc.time_offset_open(pulse_frequency=pf))
                call('DiskChopper.time_offset_close', lambda: dc.time_offset_close(pulse_frequency=pf))
                call('DiskChopper.open_duration', lambda: dc.open_duration(pulse_frequency=pf))
                call('Chopper.from_disk_chopper', lambda: CC.Chopper.from_disk_chopper(dc, pulse_frequency=pf, npulses=2))
                # ---- peaks
                x = sc.linspace('x', 0.0, 10.0, 200, unit='angstrom')
                y = 5 * sc.exp(-((x - sc.scalar(4.0, unit='angstrom')) / sc.scalar(0.3, unit='angstrom')) ** 2) + sc.scalar(1.0)
                noise = sc.array(dims=['x'], values=rng.normal(size=200) * 0.05)
                da = sc.DataArray((y + noise), coords={'x': x})
                da.variances = np.full(200, 0.05**2)
                est = sc.array(dims=['x'], values=[4.0], unit='angstrom')
                res_box = {}
                call('fit_peaks', lambda: res_box.setdefault('r', peaks.fit_peaks(
                    da, peak_estimates=est, windows=sc.scalar(2.0, unit='angstrom'), background='linear', peak='gaussian')))
                if 'r' in res_box:
                    nv = sc.DataArray(sc.values(da.data), coords={'x': x})
                    call('remove_peaks', lambda: peaks.remove_peaks(nv, res_box['r']))
                gm = peaks.model.GaussianModel(prefix='g_')
                pm = peaks.model.PolynomialModel(degree=2, prefix='p_')
                gp = {'g_amplitude': sc.scalar(2.0), 'g_loc': sc.scalar(4.0, unit='angstrom'), 'g_scale': sc.scalar(0.3, unit='angstrom')}
                pp = {'p_a0': sc.scalar(1.0, unit='1/angstrom'), 'p_a1': sc.scalar(0.1, unit='1/angstrom^2'), 'p_a2': sc.scalar(0.01, unit='1/angstrom^3')}
                call('GaussianModel.__call__', lambda: gm(x, **gp))
                call('PolynomialModel.__call__', lambda: pm(x, **pp))
                call('CompositeModel.__call__', lambda: (gm + pm)(x, **gp, **pp))
                call('Model.guess', lambda: gm.guess(da))
                call('Model.fwhm', lambda: gm.fwhm(gp))
                # ---- absorption
                cyl = Cylinder(symmetry_line=sc.vector([0, 1.0, 0]), center_of_base=sc.vector([0, -0.5, 0], unit='cm'),
                               radius=sc.scalar(1.0, unit='cm'), height=sc.scalar(1.0, unit='cm'))
                start = sc.vectors(dims=['x'], values=rng.normal(size=(n, 3)) * 0.2, unit='cm')
                direction = sc.vectors(dims=['x'], values=(lambda v: v / np.linalg.norm(v, axis=1, keepdims=True))(rng.normal(size=(n, 3))))
                call('Cylinder.beam_intersection', lambda: cyl.beam_intersection(start, direction))
                call('Cylinder.quadrature', lambda: cyl.quadrature('cheap'))
                mat = Material(scattering_params=ScatteringParams.for_isotope('V'), effective_sample_number_density=sc.scalar(0.07, unit='1/angstrom^3'))
                wl = sc.linspace('wavelength', 0.5, 5.0, 4, unit='angstrom')
                call('Material.attenuation_coefficient', lambda: mat.attenuation_coefficient(wl))
                dets = sc.vectors(dims=['x'], values=rng.normal(size=(n, 3)) * 100, unit='cm')
                call('compute_transmission_map', lambda: compute_transmission_map(
                    cyl, mat, beam_direction=sc.vector([0, 0, 1.0]), wavelength=wl, detector_position=dets, quadrature_kind='cheap'))
                # ---- filtering
                tcoord = sc.arange('time', 50.0, unit='s')
                lvl = np.repeat([1.0, 5.0, 2.0, 2.0, 7.0], 10) + rng.normal(size=50) * 1e-4
                sig = sc.DataArray(sc.array(dims=['time'], values=lvl, unit='Hz'), coords={'time': tcoord})
                box = {}
                call('find_plateaus', lambda: box.setdefault('p', filtering.find_plateaus(sig, atol=sc.scalar(0.01, unit='Hz/s'), min_n_points=3)))
                if 'p' in box:
                    call('collapse_plateaus', lambda: box.setdefault('c', filtering.collapse_plateaus(box['p'])))
                if 'c' in box:
                    call('filter_in_phase', lambda: filtering.filter_in_phase(box['c'], reference=sc.scalar(1.0, unit='Hz'), rtol=sc.scalar(0.05)))
                # ---- io: CIF / XYE writers must not touch the data they are given
                pd = sc.DataArray(sc.array(dims=['tof'], values=rng.random(5), variances=rng.random(5) * 0.01),
                                  coords={'tof': sc.arange('tof', 5.0, unit='us')})
                call('CIF.with_reduced_powder_data+save', lambda: cif.CIF('a').with_reduced_powder_data(pd).save(io.StringIO()))
                call('save_xye', lambda: save_xye(io.StringIO(), pd))
                chunk = cif.Chunk({'a.b': 1, 'a.c': 'text'}, comment='chunk comment')
                loop = cif.Loop({'l.x': sc.arange('i', 3.0, unit='m'), 'l.y': sc.arange('i', 3.0)}, comment='loop comment')
                call('Block.add(Chunk, comment)', lambda: cif.Block('holder').add(chunk, comment='another comment'))
                call('Block.add(Loop, comment)', lambda: cif.Block('holder').add(loop, comment='another comment'))
                call('Block(name, [Chunk, Loop])', lambda: cif.save_cif(io.StringIO(), cif.Block('holder', [chunk, loop], comment='c')))
                call('save_cif([Block, Block])', lambda: cif.save_cif(io.StringIO(), [cif.Block('b1', [chunk]), cif.Block('b2', [loop])], comment='file'))
                blk = cif.Block('b', [{'x.y': sc.scalar(1.5, variance=0.01, unit='m')}])
                call('Block.write', lambda: cif.save_cif(io.StringIO(), blk))
                # ---- SQW writer: caller-owned metadata already in canonical unit/dtype, every byte order
                from scippneutron.io.sqw import EnergyMode, Sqw, SqwIXExperiment, SqwIXSample
                npx = 5
                for order in ('native', 'little', 'big'):
                    exps = [SqwIXExperiment(
                        run_id=r, efix=sc.scalar(1.5 + r, unit='meV'), emode=EnergyMode.direct,
                        en=sc.array(dims=['energy_transfer'], values=[1.0, 2.5, 4.0], unit='meV'),
                        psi=sc.scalar(0.3, unit='rad'), u=sc.vector([0.0, 1.0, 0.5]), v=sc.vector([1.0, 1.0, 0.0]),
                        omega=sc.scalar(0.1, unit='rad'), dpsi=sc.scalar(0.2, unit='rad'), gl=sc.scalar(0.3, unit='rad'),
                        gs=sc.scalar(-0.4, unit='rad'), filename=f'run{r}.nxspe', filepath='/data') for r in range(2)]
                    pix = sc.DataArray(
                        sc.array(dims=['obs'], values=rng.random(npx), variances=rng.random(npx), unit='count'),
                        coords={**{f'u{i}': sc.array(dims=['obs'], values=rng.random(npx), unit='1/angstrom') for i in (1, 2, 3)},
                                'u4': sc.array(dims=['obs'], values=rng.random(npx), unit='meV'),
                                **{k: sc.array(dims=['obs'], values=np.arange(npx) % 2, unit=None, dtype='int64')
                                   for k in ('idet', 'irun', 'ien')}})
                    sample = SqwIXSample(name='s', lattice_spacing=sc.vector([2.0, 3.0, 4.0], unit='angstrom'),
                                         lattice_angle=sc.vector([90.0, 90.0, 120.0], unit='deg'))

                    def build_sqw(order=order, exps=exps, pix=pix, sample=sample):
                        b = Sqw.build(io.BytesIO(), byteorder=order)
                        b = b.add_pixel_data(pix, experiments=exps).add_default_sample(sample)
                        b.create()
                    call(f'SqwBuilder.create[{order}]', build_sqw, (exps, pix, sample))
                # ---- convert with positions
                cda = sc.DataArray(sc.ones(dims=['x', 'tof'], shape=[n, 4]), coords={
                    'tof': sc.linspace('tof', 1e3, 1e4, 4, unit='us'),
                    'position': sc.vectors(dims=['x'], values=det, unit='m'),
                    'source_position': sc.vector([0, 0, -10.0], unit='m'), 'sample_position': sc.vector([0, 0, 0.0], unit='m')})
                for tgt in ('wavelength', 'dspacing', 'Q', 'energy'):
                    call(f'convert[{tgt}]', lambda tgt=tgt: scn.convert(cda, 'tof', tgt, scatter=True))
                call('two_theta(da)', lambda: scn.two_theta(cda))
        for qn in mm.reached:
            ctx.classes.add('reached:' + qn)
        ctx.event('mutation_monitor.judged_calls', mm.judged)
        ctx.event('mutation_monitor.observed_calls', mm.events)
        ctx.extra['functions_armed'] = len(mm.functions)
    finally:
        mm.uninstall()


# =============================================================== oracle B ===
SENTINEL = object()


def _sentinel_fn(**kw):
    return None


def mutate(obj, depth=0):
    """Do to a returned object what a caller can do through its public surface. Returns #mutations."""
    n = 0
    if depth > 3 or obj is None or isinstance(obj, _Frozen):
        return 0
    if isinstance(obj, sc.Variable):
        try:
            if obj.dtype in (sc.DType.float64, sc.DType.float32, sc.DType.int64, sc.DType.int32):
                obj *= 2
                obj += 1
                return 1
        except Exception:  # noqa: BLE001  (read-only: fine)
            return 0
        return 0
    if isinstance(obj, dict):
        keys = list(obj.keys())
        try:
            if keys:
                for k in keys[:2]:
                    n += mutate(obj[k], depth + 1)
                obj[keys[0]] = _sentinel_fn
                del obj[keys[-1]]
                n += 2
            obj['__injected__'] = _sentinel_fn
            n += 1
        except Exception:  # noqa: BLE001
            pass
        return n
    if isinstance(obj, list):
        for x in obj[:2]:
            n += mutate(x, depth + 1)
        try:
            obj.append(obj[0] if obj else 'injected')
            if len(obj) > 1:
                del obj[0]
            n += 1
        except Exception:  # noqa: BLE001
            pass
        return n
    if isinstance(obj, set):
        obj.add('__injected__')
        if len(obj) > 1:
            obj.pop()
        return 1
    if isinstance(obj, tuple | str | int | float | frozenset):
        return 0
    # objects: public attributes, properties and dataclass fields
    names = [a for a in dir(obj) if not a.startswith('_')]
    for a in names:
        try:
            v = getattr(obj, a)
        except Exception:  # noqa: BLE001
            continue
        if callable(v) and not isinstance(v, sc.Variable):
            continue
        if isinstance(v, sc.Variable | dict | list | set):
            n += mutate(v, depth + 1)
        elif isinstance(v, str) and a in ('name', 'comment'):
            try:
                setattr(obj, a, v + 'X')
                n += 1
            except Exception:  # noqa: BLE001
                pass
    add = getattr(obj, 'add', None)
    if callable(add) and type(obj).__name__ == 'Block':
        try:
            add({'injected.tag': 'v'})
            n += 1
        except Exception:  # noqa: BLE001
            pass
    return n


def family_graphs():
    import scippneutron as scn
    from scippneutron.conversion.graph import beamline as GB
    from scippneutron.conversion.graph import tof as GT
    from scippneutron.core import conversions as CV

    da = sc.DataArray(sc.ones(dims=['x'], shape=[2]), coords={'tof': sc.arange('x', 1.0, 3.0, unit='us')})
    F = {}
    for s in ('tof', 'wavelength', 'energy', 'Q'):
        F[f'elastic({s})'] = lambda s=s: GT.elastic(s)
    F['kinematic(tof)'] = lambda: GT.kinematic('tof')
    for s in ('tof', 'wavelength', 'energy'):
        F[f'elastic_dspacing({s})'] = lambda s=s: GT.elastic_dspacing(s)
    for s in ('tof', 'wavelength'):
        F[f'elastic_energy({s})'] = lambda s=s: GT.elastic_energy(s)
        F[f'elastic_Q({s})'] = lambda s=s: GT.elastic_Q(s)
        F[f'elastic_Q_vec({s})'] = lambda s=s: GT.elastic_Q_vec(s)
        F[f'elastic_hkl({s})'] = lambda s=s: GT.elastic_hkl(s)
    for s in ('tof', 'energy', 'Q'):
        F[f'elastic_wavelength({s})'] = lambda s=s: GT.elastic_wavelength(s)
    F['direct_inelastic(tof)'] = lambda: GT.direct_inelastic('tof')
    F['indirect_inelastic(tof)'] = lambda: GT.indirect_inelastic('tof')
    for sflag in (True, False):
        F[f'beamline({sflag})'] = lambda sflag=sflag: GB.beamline(scatter=sflag)
        F[f'Ltotal({sflag})'] = lambda sflag=sflag: GB.Ltotal(scatter=sflag)
    for nm in ('incident_beam', 'scattered_beam', 'two_theta', 'L1', 'L2'):
        F[f'graph.{nm}()'] = lambda nm=nm: getattr(GB, nm)()
    F['conversion_graph(tof,dspacing,True,elastic)'] = lambda: CV.conversion_graph('tof', 'dspacing', True, 'elastic')
    F['conversion_graph(tof,L1,True,elastic)'] = lambda: CV.conversion_graph('tof', 'L1', True, 'elastic')
    F['conversion_graph(tof,wavelength,False,elastic)'] = lambda: CV.conversion_graph('tof', 'wavelength', False, 'elastic')
    F['conversion_graph(tof,energy_transfer,True,direct)'] = lambda: CV.conversion_graph('tof', 'energy_transfer', True, 'direct_inelastic')
    F['deduce_conversion_graph(da,tof,Q,True)'] = lambda: scn.deduce_conversion_graph(da, 'tof', 'Q', True)
    return F, fp


def family_atoms():
    from scippneutron.atoms import Atom, ScatteringParams, reference_wavelength

    F = {}
    for name in ('H', '2H', 'V', '50V', 'Si'):
        F[f'Atom.for_isotope({name})'] = lambda name=name: Atom.for_isotope(name)
        F[f'ScatteringParams.for_isotope({name})'] = lambda name=name: ScatteringParams.for_isotope(name)
    F['reference_wavelength()'] = reference_wavelength

    def view(o):
        # observable state: every public field / property value
        out = {}
        for a in dir(o):
            if a.startswith('_'):
                continue
            try:
                v = getattr(o, a)
            except Exception as e:  # noqa: BLE001
                v = ('raises', type(e).__name__)
            if callable(v) and not isinstance(v, sc.Variable):
                continue
            out[a] = v
        return fp(out) if not isinstance(o, sc.Variable) else fp(o)
    return F, view


def family_models():
    from scippneutron.peaks import model as M

    g = M.GaussianModel(prefix='a_')
    p = M.PolynomialModel(degree=2, prefix='b_')
    lz = M.LorentzianModel(prefix='a_l_')
    c = g + p
    x = sc.linspace('x', -1.0, 1.0, 7, unit='one')

    def params(m):
        out = {}
        for nme in sorted(m.param_names):
            base = nme.split('_')[-1]
            if base in ('loc', 'scale'):
                out[nme] = sc.scalar(0.3)
            elif base.startswith('a') and base[1:].isdigit():
                out[nme] = sc.scalar(0.5)
            elif base == 'fraction':
                out[nme] = sc.scalar(0.4)
            else:
                out[nme] = sc.scalar(2.0)
        return out

    def view(o):
        if isinstance(o, M.Model):
            return fp((type(o).__name__, o.prefix, sorted(o.param_names), sorted(o.param_bounds.items()),
                       o(x, **params(o))))
        return fp(sorted(o) if isinstance(o, set) else o)

    F = {
        'g.with_prefix(x_)': lambda: g.with_prefix('x_'),
        'c.with_prefix(y_)': lambda: c.with_prefix('y_'),
        'p.with_prefix()': lambda: p.with_prefix(''),
        'g + p': lambda: g + p,
        'c + lz': lambda: c + lz,
        'g.param_names': lambda: g.param_names,
        'c.param_names': lambda: c.param_names,
        'g.param_bounds': lambda: g.param_bounds,
        'c.param_bounds': lambda: c.param_bounds,
        'lz.param_bounds': lambda: lz.param_bounds,
    }
    return F, view


def family_cif():
    from scippneutron.io import cif
    from scippneutron.metadata import Beamline, Person

    rng = np.random.Generator(np.random.PCG64(5))
    da = sc.DataArray(sc.array(dims=['tof'], values=rng.random(4), variances=rng.random(4) * 0.01),
                      coords={'tof': sc.arange('tof', 4.0, unit='us')})
    person = Person(name='Jane Doe', email='jane@example.com', corresponding=True)
    bl = Beamline(name='DREAM', facility='ESS')
    base = cif.CIF('base', comment='c').with_reducers('prog v1').with_reduced_powder_data(da)
    block = cif.Block('blk', [{'audit.creation_method': 'x'}, cif.Loop({'a.b': sc.arange('i', 3.0, unit='m')})],
                      comment='hello')

    def view(o):
        buf = io.StringIO()
        if isinstance(o, cif.CIF):
            o.save(buf)
        else:
            cif.save_cif(buf, o)
        text = buf.getvalue()
        # the audit block records the current date: drop that line
        return fp([ln for ln in text.splitlines() if 'audit.creation_date' not in ln])

    F = {
        'base.copy()': lambda: base.copy(),
        'base.with_reducers': lambda: base.with_reducers('other'),
        'base.with_authors': lambda: base.with_authors(person),
        'base.with_beamline': lambda: base.with_beamline(bl),
        'base.with_reduced_powder_data': lambda: base.with_reduced_powder_data(da, comment='again'),
        'base.with_powder_calibration': lambda: base.with_powder_calibration(
            sc.DataArray(sc.array(dims=['cal'], values=[1.0, 2.0]), coords={'power': sc.array(dims=['cal'], values=[0, 1])})),
        'block.copy()': lambda: block.copy(),
    }
    return F, view


def family_frames():
    """Frames computed from a frame sequence (lookups by distance, propagation, chopping): every call
    computes a new frame; what a caller does to it must not reach the sequence or later lookups.
    (Index access ``seq[i]`` and the frame lists of derived sequences hand out the stored frames by
    design and are not part of this family.)"""
    from scippneutron.tof import chopper_cascade as CC

    def m(x):
        return sc.scalar(float(x), unit='m')

    def chopper(d, t0=0.0):
        return CC.Chopper(distance=m(d), time_open=sc.array(dims=['cutout'], values=[t0, t0 + 0.02], unit='s'),
                          time_close=sc.array(dims=['cutout'], values=[t0 + 0.01, t0 + 0.03], unit='s'))

    src = CC.FrameSequence.from_source_pulse(
        time_min=sc.scalar(0.0, unit='s'), time_max=sc.scalar(0.003, unit='s'),
        wavelength_min=sc.scalar(0.5, unit='angstrom'), wavelength_max=sc.scalar(12.0, unit='angstrom'))
    seq = src.chop([chopper(8.0, 0.004), chopper(15.0, 0.01)]).propagate_to(m(30.0))
    F = {
        'seq[source distance]': lambda: seq[m(0.0)],
        'seq[first chopper distance]': lambda: seq[m(8.0)],
        'seq[second chopper distance]': lambda: seq[m(15.0)],
        'seq[last distance]': lambda: seq[m(30.0)],
        'seq[last distance in mm]': lambda: seq[sc.scalar(30000.0, unit='mm')],
        'seq[between]': lambda: seq[m(11.0)],
        'seq[beyond]': lambda: seq[m(45.0)],
        'frame.propagate_to(own distance)': lambda: seq.frames[1].propagate_to(m(8.0)),
        'frame.propagate_to(further)': lambda: seq.frames[1].propagate_to(m(9.5)),
        'frame.chop(at own distance)': lambda: seq.frames[2].chop(chopper(15.0, 0.012)),
        'frame.chop(further)': lambda: seq.frames[2].chop(chopper(20.0, 0.02)),
        'seq.propagate_to(last distance)[-1]': lambda: seq.propagate_to(m(30.0)).frames[-1],
        'seq.propagate_to(further)[-1]': lambda: seq.propagate_to(m(40.0)).frames[-1],
        'seq.chop([at last distance])[-1]': lambda: seq.chop([chopper(30.0, 0.03)]).frames[-1],
        'frame.bounds()': lambda: seq.frames[2].bounds(),
        'frame.subbounds()': lambda: seq.frames[2].subbounds(),
        'seq (stored frames)': lambda: _Frozen(seq),
    }
    def rebind(obj, depth=0):
        """What a caller does to a frame it was given: reassign its fields and edit its lists.  The vertex
        arrays themselves are left alone: a propagated subframe shares its wavelength array with the
        subframe it was computed from (Subframe.propagate_by), by design."""
        n = 0
        if isinstance(obj, CC.Frame):
            for sub in obj.subframes[:2]:
                n += rebind(sub)
            obj.distance = obj.distance * 2.0
            if obj.subframes:
                del obj.subframes[0]
            obj.subframes.append(CC.Subframe(time=sc.array(dims=['vertex'], values=[0.0, 1.0, 1.0], unit='s'),
                                             wavelength=sc.array(dims=['vertex'], values=[1.0, 1.0, 2.0],
                                                                 unit='angstrom')))
            return n + 3
        if isinstance(obj, CC.Subframe):
            obj.time = obj.time * 2.0
            obj.wavelength = obj.wavelength + sc.scalar(1.0, unit='angstrom')
            return 2
        if isinstance(obj, sc.DataGroup):
            for k in list(obj.keys()):
                obj[k] = obj[k] * 2.0
                n += 1
            return n
        return 0

    return F, (lambda o: fp(o.obj) if isinstance(o, _Frozen) else fp(o)), rebind


class _Frozen:
    """A view-only entry of a history family: its value is fingerprinted but never handed to mutate()."""

    def __init__(self, obj):
        self.obj = obj


FAMILIES = {'graphs': family_graphs, 'atoms': family_atoms, 'models': family_models, 'cif': family_cif,
            'frames': family_frames}


def history(ctx, shard):
    fam = shard['family']
    made = FAMILIES[fam]()
    F, view = made[:2]
    mutate_result = made[2] if len(made) > 2 else mutate
    names = list(F)
    pristine = {}
    for nme in names:
        try:
            pristine[nme] = view(F[nme]())
        except Exception as e:  # noqa: BLE001
            ctx.count(f'factory unusable: {nme}: {type(e).__name__}')
            pristine[nme] = None
    names = [nme for nme in names if pristine[nme] is not None]
    alphabet = [('call', nme) for nme in names] + [('mutate', k) for k in range(2)]
    maxlen = shard['maxlen']
    first = shard.get('first')  # shard over the first symbol
    total = 0
    poisoned_by = None
    for L in range(1, maxlen + 1):
        for seq in itertools.product(range(len(alphabet)), repeat=L):
            if first is not None and seq[0] % shard['nfirst'] != first:
                continue
            # a mutate symbol needs an earlier result to act on
            results = []
            valid = True
            nmut = 0
            for s in seq:
                kind, arg = alphabet[s]
                if kind == 'call':
                    try:
                        results.append(F[arg]())
                    except Exception as e:  # noqa: BLE001
                        ctx.violation('factory_raised', f'{arg} raised {type(e).__name__} after history: {e}',
                                      {'family': fam, 'sequence': [alphabet[i] for i in seq]}, factory=arg)
                        valid = False
                        break
                else:
                    if arg >= len(results):
                        valid = False
                        break
                    nmut += mutate_result(results[arg])
            if not valid:
                continue
            total += 1
            bad = []
            for nme in names:
                try:
                    now = view(F[nme]())
                except Exception as e:  # noqa: BLE001
                    now = ('raises', type(e).__name__)
                if now != pristine[nme]:
                    bad.append(nme)
            ctx.event('history_sequence')
            if nmut:
                ctx.event('history_sequence_with_mutation')
            ctx.case((fam, seq))
            if total <= 2:
                ctx.sample({'family': fam, 'sequence': [list(alphabet[i]) for i in seq], 'mutations_applied': nmut})
            if bad:
                readable = [list(alphabet[i]) for i in seq]
                for nme in bad[:3]:
                    ctx.violation('history_dependence',
                                  f'{nme} no longer returns its pristine value after the history {readable}',
                                  {'family': fam, 'sequence': readable, 'affected': bad, 'mutations_applied': nmut},
                                  family=fam, factory=nme.split('(')[0], needs_mutation=bool(nmut))
                # the shared state is poisoned for the rest of this process: stop this family here
                poisoned_by = readable
                break
        if poisoned_by:
            break
    ctx.extra[f'history_{fam}' + (f'_part{first}' if first is not None else '')] = {'factories': names, 'alphabet': len(alphabet), 'sequences': total,
                                   'max_length': maxlen, 'stopped_after_poisoning': poisoned_by}
    ctx.extra['exhaustive_subspace'] = ('oracle B only: all call/mutate histories up to the stated max_length per '
                                        'family (see history_* entries); oracle A is sampled')


# ================================================================ pytest ===
def pytest_shard(ctx, shard):
    """Repository tests with the mutation monitor armed (thorough tier)."""
    out = tempfile.mkdtemp(prefix='rv-c09-pytest-')
    env = dict(os.environ, RV_MUTMON_OUT=out)
    here = os.path.dirname(os.path.dirname(os.path.dirname(os.path.abspath(__file__))))
    repo = os.path.dirname(os.environ.get('RV_REPO_SRC', '/repo/src'))
    cmd = [sys.executable, '-m', 'pytest', '-q', '-p', 'no:cacheprovider', '-p', 'rv.pytest_monitor',
           '--continue-on-collection-errors', '-x' if False else '-q', *shard['paths']]
    try:
        p = subprocess.run(cmd, cwd=repo, env=env, capture_output=True, text=True, timeout=3000)
        tail = (p.stdout or '')[-300:]
        ctx.extra.setdefault('pytest_tail', []).append(tail.strip().splitlines()[-1] if tail.strip() else '')
        for f in glob.glob(os.path.join(out, '*.json')):
            with open(f) as fh:
                rep = json.load(fh)
            ctx.event('mutation_monitor.judged_calls', rep['judged'])
            ctx.event('mutation_monitor.observed_calls', rep['events'])
            ctx.event('pytest_tests', rep.get('tests', 0))
            for qn in rep['reached']:
                ctx.classes.add('reached:' + qn)
            for r in rep['reports']:
                ctx.violation('argument_mutated', r['what'], dict(r['case'], workload='pytest:' + ' '.join(shard['paths'])),
                              **r['keys'])
            ctx.case(('pytest', tuple(shard['paths'])), n=max(1, rep['judged']))
    except subprocess.TimeoutExpired:
        ctx.inconclusive_because('pytest under the mutation monitor hit the watchdog')
    finally:
        import shutil
        shutil.rmtree(out, ignore_errors=True)


# ================================================================ driver ===
def plan(tier, seed):
    shards = [{'kind': 'alias', 'reps': 1 if tier == 'quick' else 4}]
    for m in REUSE:
        shards.append({'kind': 'reuse', 'module': m, 'n_sub': 1 if tier == 'quick' else 3})
    for fam in HISTORY_FAMILIES:
        if fam == 'graphs':
            nfirst = 4 if tier == 'quick' else 8
            for f in range(nfirst):
                shards.append({'kind': 'history', 'family': fam, 'maxlen': 2 if tier == 'quick' else 3,
                               'first': f, 'nfirst': nfirst})
        else:
            shards.append({'kind': 'history', 'family': fam, 'maxlen': 3 if fam not in ('cif', 'frames') or tier != 'quick' else 2})
    if tier == 'thorough':
        for pth in PYTEST_DIRS:
            shards.append({'kind': 'pytest', 'paths': [pth]})
    return shards


def requirements(tier):
    return {'events': {'mutation_monitor.judged_calls': 5000, 'alias_case': 100, 'history_sequence': 1000,
                       'history_sequence_with_mutation': 200}}


def run(shard, ctx):
    t0 = time.time()
    if shard['kind'] == 'alias':
        alias_grid(ctx, shard)
    elif shard['kind'] == 'reuse':
        reuse_shard(ctx, shard)
    elif shard['kind'] == 'history':
        history(ctx, shard)
    elif shard['kind'] == 'pytest':
        pytest_shard(ctx, shard)
    ctx.extra['shard_wall:' + shard['kind'] + ':' + str(shard.get('module') or shard.get('family') or shard.get('paths') or '') + ':' + str(shard.get('first', ''))] = round(time.time() - t0, 1)


FINDING_PREDICATES = {}

TECHNIQUE = ('universal argument-mutation monitor (sys.monitoring on every code object of the computational modules, '
             'bit-exact before/after fingerprints at the outermost frame) riding on all workloads; exhaustive '
             'history checker over call/mutate sequences of length <= 3 against pristine references')
LEVEL_TEXT = ('exploration with an exhaustive part: (A) every call that crosses the package boundary in the hostile '
              'workloads of all other properties, in a dedicated aliasing grid (arguments already in the converted-to '
              'unit/dtype, slices of caller-owned buffers) and, in the thorough tier, in the repository test-suite, has '
              'all its argument objects fingerprinted bit-exactly before and after; (B) for graph factories, table '
              'lookups, model and CIF builder combinators all call/mutate histories up to length 3 (thorough; 2 for the '
              'large graph family in quick) are enumerated and every factory must keep returning its pristine value.')
LEVEL_NOTE = ('trusted: blake2 fingerprints of raw buffers (rv/snap.py); exemption list of sinks and self-mutators '
              'in rv/mutmon.py; mutations limited to what the public surface of a result allows')
DESIGN_REF = 'DESIGN.md section 4, C09'
