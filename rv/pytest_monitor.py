"""pytest plugin: run the repository's tests with the C09 mutation monitor armed.

Enabled with ``-p rv.pytest_monitor``; writes one JSON report per process into
$RV_MUTMON_OUT.  Nothing in /repo refers to this file.
"""

from __future__ import annotations

import json
import os
import sys

_state = {}


def pytest_configure(config):
    deps = os.environ.get('RV_DEPS')
    if deps and deps not in sys.path:
        sys.path.append(deps)
    from rv.mutmon import MutationMonitor
    from rv.trace import Tracer

    reports = []

    def report(kind, what, case, **keys):
        if len(reports) < 200:
            from rv.ctx import jsonable
            reports.append({'what': what, 'case': jsonable(case), 'keys': jsonable(keys),
                            'test': _state.get('current')})

    mm = MutationMonitor(report).install()
    tr = Tracer().start()
    _state.update(mm=mm, tr=tr, reports=reports, tests=0)


def pytest_runtest_setup(item):
    _state['current'] = item.nodeid
    _state['tests'] = _state.get('tests', 0) + 1


def pytest_unconfigure(config):
    mm, tr = _state.get('mm'), _state.get('tr')
    if mm is None:
        return
    tr.stop()
    mm.uninstall()
    out = os.environ.get('RV_MUTMON_OUT')
    if out:
        os.makedirs(out, exist_ok=True)
        with open(os.path.join(out, f'mutmon-{os.getpid()}.json'), 'w') as f:
            json.dump({'events': mm.events, 'judged': mm.judged, 'reached': sorted(mm.reached),
                       'reports': _state['reports'], 'tests': _state.get('tests', 0),
                       'functions_armed': len(mm.functions)}, f)
