"""Call-boundary observation with sys.monitoring (Python 3.12).

The *code object* of each watched function is instrumented, so references to
the function that were bound at import time (graph tables, ``from x import f``
re-exports, dataclass methods) are observed as well; a wrapper installed later
would be bypassed exactly there.

Events: ``PY_START`` / ``PY_RETURN`` are local to the watched code objects,
``PY_UNWIND`` can only be global and is filtered by code object.
"""

from __future__ import annotations

import functools
import inspect
import sys
import types
from dataclasses import dataclass, field

_E = sys.monitoring.events
TOOL_ID = 3
_CO_VARARGS = 0x04
_CO_VARKEYWORDS = 0x08
_CO_GENERATOR = 0x20


def code_of(obj):
    """Code object behind a function / method / descriptor / cached wrapper."""
    seen = 0
    while seen < 10:
        seen += 1
        if isinstance(obj, staticmethod | classmethod):
            obj = obj.__func__
        elif isinstance(obj, property):
            obj = obj.fget
        elif isinstance(obj, functools.cached_property):
            obj = obj.func
        elif isinstance(obj, types.MethodType):
            obj = obj.__func__
        elif isinstance(obj, functools.partial):
            obj = obj.func
        elif hasattr(obj, '__wrapped__'):
            # lru_cache objects and functools.wraps-decorated functions: observe the real body
            # (a decorator's shared ``wrapper`` code object would fire for every decorated function)
            obj = obj.__wrapped__
        elif isinstance(obj, types.FunctionType):
            return obj.__code__
        elif isinstance(obj, types.CodeType):
            return obj
        else:
            return None
    return None


def _arg_names(code):
    n = code.co_argcount + code.co_kwonlyargcount
    if code.co_flags & _CO_VARARGS:
        n += 1
    if code.co_flags & _CO_VARKEYWORDS:
        n += 1
    return code.co_varnames[:n]


@dataclass
class Event:
    name: str
    code: types.CodeType
    args: dict
    depth: int  # number of watched frames below this one (0 = outermost)
    result: object = None
    exc: BaseException | None = None
    pre: object = None  # whatever on_start returned
    upre: object = None  # same, for the universal watcher
    seq: int = 0
    children: list = field(default_factory=list)

    @property
    def ok(self):
        return self.exc is None


class Tracer:
    """Observe calls of selected code objects.

    ``Tracer.universal`` (class attribute) may hold a list of
    ``(func, name, on_start, on_return)`` that *every* tracer instance observes in
    addition to its own watch list (used by the argument-mutation monitor of C09 to
    ride along with the workloads of the other properties).

    ``watch(func, name, on_start=None, on_return=None)``; ``on_start(event)``
    may return a value kept in ``event.pre``; ``on_return(event)`` is called
    for normal returns and for unwinds (``event.exc`` set).
    Handlers run with observation suspended, so they may call anything.
    """

    universal = None
    # "strict caller" scope: while the outermost watched frame of the package is executing, numpy floating-point
    # events raise and warnings are errors (the caller's process-wide settings); harness code never runs under it
    strict = None  # None | dict of np.seterr keywords
    handler_errors: list = []  # tracebacks of monitor handlers that raised (see _handler_failed)

    def __init__(self, keep_log: bool = False, keep_children: bool = False):
        self._watched: dict[types.CodeType, tuple] = {}
        self._uni: dict[types.CodeType, tuple] = {}
        self._stack: list[Event] = []
        self._busy = False
        self._active = False
        self.counts: dict[str, int] = {}
        self.log: list[Event] = []
        self.keep_log = keep_log
        self.keep_children = keep_children
        self._seq = 0
        self.any_return = None  # optional listener for every event

    # -- registration ------------------------------------------------------
    def watch(self, func, name=None, on_start=None, on_return=None):
        code = code_of(func)
        if code is None:
            raise TypeError(f'cannot find code object of {func!r}')
        if code.co_flags & _CO_GENERATOR:
            return None
        if name is None:
            name = getattr(func, '__qualname__', None) or code.co_qualname
        self._watched[code] = (name, on_start, on_return)
        self.counts.setdefault(name, 0)
        if self._active:
            sys.monitoring.set_local_events(
                TOOL_ID, code, _E.PY_START | _E.PY_RETURN
            )
        return name

    def watch_module_functions(self, module, prefix=None, **kw):
        names = []
        for n, f in vars(module).items():
            if isinstance(f, types.FunctionType) and f.__module__ == module.__name__:
                names.append(self.watch(f, (prefix or module.__name__) + '.' + n, **kw))
        return names

    # -- lifecycle ---------------------------------------------------------
    def start(self):
        mon = sys.monitoring
        if mon.get_tool(TOOL_ID) is not None:
            mon.free_tool_id(TOOL_ID)
        mon.use_tool_id(TOOL_ID, 'rv')
        mon.register_callback(TOOL_ID, _E.PY_START, self._on_start)
        mon.register_callback(TOOL_ID, _E.PY_RETURN, self._on_return)
        mon.register_callback(TOOL_ID, _E.PY_UNWIND, self._on_unwind)
        if Tracer.universal:
            for func, name, on_start, on_return in Tracer.universal:
                code = code_of(func)
                if code is not None and not code.co_flags & _CO_GENERATOR:
                    self._uni[code] = (name, on_start, on_return)
        if Tracer.strict is not None:
            # the strict-caller scope must cover all package code, not only the functions a module watches:
            # every function of the computational modules becomes a handler-less scope marker
            try:
                from rv.mutmon import enumerate_functions

                for name, func in enumerate_functions()[0]:
                    code = code_of(func)
                    if (code is not None and not code.co_flags & _CO_GENERATOR
                            and code not in self._uni and code not in self._watched):
                        self._uni[code] = (name, None, None)
            except Exception:  # noqa: BLE001
                pass
        for code in {**self._watched, **self._uni}:
            mon.set_local_events(TOOL_ID, code, _E.PY_START | _E.PY_RETURN)
        mon.set_events(TOOL_ID, _E.PY_UNWIND)
        self._active = True
        return self

    def stop(self):
        mon = sys.monitoring
        if not self._active:
            return
        for code in {**self._watched, **self._uni}:
            mon.set_local_events(TOOL_ID, code, 0)
        mon.set_events(TOOL_ID, 0)
        for ev in (_E.PY_START, _E.PY_RETURN, _E.PY_UNWIND):
            mon.register_callback(TOOL_ID, ev, None)
        mon.free_tool_id(TOOL_ID)
        self._active = False
        self._stack.clear()
        self._leave_strict()

    def __enter__(self):
        return self.start()

    def __exit__(self, *a):
        self.stop()

    # -- callbacks ---------------------------------------------------------
    def _on_start(self, code, offset):
        if self._busy:
            return
        w = self._watched.get(code)
        u = self._uni.get(code)
        if w is None and u is None:
            return
        name = w[0] if w is not None else u[0]
        frame = sys._getframe(1)
        loc = frame.f_locals
        args = {}
        for n in _arg_names(code):
            if n in loc:
                args[n] = loc[n]
        self._seq += 1
        ev = Event(name, code, args, len(self._stack), seq=self._seq)
        if self.keep_children and self._stack:
            self._stack[-1].children.append(ev)
        self._stack.append(ev)
        self._busy = True
        self._leave_strict()  # handlers are harness code: never under the strict caller scope
        try:
            if w is not None and w[1] is not None:
                ev.pre = w[1](ev)
            if u is not None and u[1] is not None:
                ev.upre = u[1](ev)
        except Exception:  # noqa: BLE001
            self._handler_failed(name, 'entry')
        finally:
            self._busy = False
        if Tracer.strict is not None:
            self._enter_strict()

    def _handler_failed(self, name, where):
        """A monitor's own handler raised. The exception must not travel into the monitored call (there it would look
        like the package's exception, and a driver's `except` would swallow the monitor's bug together with whatever
        the monitor was about to report): it is recorded, and the worker makes the run inconclusive."""
        import traceback

        if len(Tracer.handler_errors) < 20:
            Tracer.handler_errors.append(f'{where} handler of {name}: ' + traceback.format_exc(limit=8)[-1500:])

    def _enter_strict(self):
        import decimal
        import warnings

        import numpy as np

        cfg = Tracer.strict
        self._saved_strict = (np.geterr(), warnings.filters[:], decimal.getcontext().copy(), np.get_printoptions())
        if 'decimal_prec' in cfg:
            # the caller's other process-wide state: a coarse decimal context (numpy's print mode is left alone:
            # C14 promises numbers 'to printed precision' only, and C15 drives the print options itself)
            decimal.getcontext().prec = cfg['decimal_prec']
        else:
            np.seterr(**cfg)
            warnings.simplefilter('error')

    def _leave_strict(self):
        saved = getattr(self, '_saved_strict', None)
        if saved is None:
            return
        import warnings

        import numpy as np

        import decimal

        np.seterr(**saved[0])
        warnings.filters[:] = saved[1]
        decimal.setcontext(saved[2])
        po = dict(saved[3])
        po['legacy'] = po.get('legacy') or False
        try:
            np.set_printoptions(**po)
        except Exception:  # noqa: BLE001
            np.set_printoptions(legacy=False)
        try:
            warnings._filters_mutated()
        except AttributeError:
            pass
        self._saved_strict = None

    def _finish(self, code, result, exc):
        st = self._stack
        # pop to the matching frame (frames of generators etc. never pushed)
        i = len(st) - 1
        while i >= 0 and st[i].code is not code:
            i -= 1
        if i < 0:
            return
        ev = st[i]
        del st[i:]
        self._leave_strict()
        ev.result = result
        ev.exc = exc
        w = self._watched.get(code)
        u = self._uni.get(code)
        if w is not None:
            self.counts[ev.name] = self.counts.get(ev.name, 0) + 1
        if self.keep_log:
            self.log.append(ev)
        self._busy = True
        try:
            if w is not None and w[2] is not None:
                w[2](ev)
            if u is not None and u[2] is not None:
                u[2](ev)
            if self.any_return is not None:
                self.any_return(ev)
        except Exception:  # noqa: BLE001
            self._handler_failed(ev.name, 'exit')
        finally:
            self._busy = False
        if Tracer.strict is not None and st:
            self._enter_strict()  # back inside an outer watched frame of the package

    def _on_return(self, code, offset, retval):
        if self._busy or (code not in self._watched and code not in self._uni):
            return
        self._finish(code, retval, None)

    def _on_unwind(self, code, offset, exc):
        if self._busy or (code not in self._watched and code not in self._uni):
            return
        self._finish(code, None, exc)


def functions_of(obj, module_name_prefix='scippneutron'):
    """All (qualified name, callable) pairs defined in a module or class,
    looking through staticmethod / classmethod / property / lru_cache."""
    out = []
    seen = set()

    def add(name, f):
        c = code_of(f)
        if c is None or c in seen:
            return
        if not c.co_filename or module_name_prefix not in c.co_filename:
            return
        seen.add(c)
        out.append((name, f))

    def walk(o, base):
        for n, v in list(vars(o).items()):
            if inspect.isclass(v):
                if getattr(v, '__module__', '') == getattr(o, '__name__', None) or (
                    inspect.isclass(o) and v.__qualname__.startswith(o.__qualname__)
                ):
                    walk(v, base + '.' + n)
            elif isinstance(v, property):
                for kind in ('fget', 'fset'):
                    g = getattr(v, kind)
                    if g is not None:
                        add(f'{base}.{n}.{kind}', g)
            else:
                if inspect.ismodule(o):
                    mod = getattr(v, '__module__', None)
                    w = getattr(v, '__wrapped__', None)
                    if mod != o.__name__ and getattr(w, '__module__', None) != o.__name__:
                        continue
                add(base + '.' + n, v)

    walk(obj, getattr(obj, '__name__', repr(obj)))
    return out
