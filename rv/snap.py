"""Structural, bit-exact fingerprints of the objects that cross call boundaries.

``fp(obj)`` returns a hex digest; two digests are equal iff the objects are
structurally identical down to the raw bytes of every buffer (so NaN payloads
and signed zeros count).  ``describe(obj)`` returns a small JSON-able summary
used in witnesses.
"""

from __future__ import annotations

import dataclasses
import enum
import hashlib
import io
import types

import numpy as np
import scipp as sc

_MAX_DEPTH = 12


def _h():
    return hashlib.blake2b(digest_size=16)


def _np_bytes(a: np.ndarray) -> bytes:
    a = np.asarray(a)
    if a.dtype == object:
        return repr(a.tolist()).encode()
    return np.ascontiguousarray(a).tobytes()


def _upd_variable(h, v: sc.Variable, depth):
    h.update(b'V')
    h.update(repr((tuple(v.dims), tuple(v.shape), str(v.unit), str(v.dtype))).encode())
    if v.bins is not None:
        c = v.bins.constituents
        h.update(b'B' + str(c['dim']).encode())
        _upd(h, c['begin'], depth + 1)
        _upd(h, c['end'], depth + 1)
        _upd(h, c['data'], depth + 1)
        return
    dt = v.dtype
    if dt in (sc.DType.string,):
        h.update(repr(list(v.values) if v.ndim else v.value).encode())
        return
    if dt in (sc.DType.PyObject, sc.DType.DataArray, sc.DType.Dataset, sc.DType.VariableView):
        if v.ndim == 0:
            _upd(h, v.value, depth + 1)
        else:
            h.update(repr(v.values).encode())
        return
    try:
        h.update(_np_bytes(v.values))
    except Exception:  # noqa: BLE001
        h.update(repr(v).encode())
    if v.variances is not None:
        h.update(b'var')
        h.update(_np_bytes(v.variances))
    try:
        h.update(b'a' if v.aligned else b'u')
    except Exception:  # noqa: BLE001
        pass


def _upd(h, o, depth=0):
    if depth > _MAX_DEPTH:
        h.update(b'<deep>')
        return
    if o is None or isinstance(o, bool | int | float | complex | str | bytes):
        h.update(type(o).__name__.encode())
        if isinstance(o, float):
            h.update(np.float64(o).tobytes())
        else:
            h.update(repr(o).encode())
        return
    if isinstance(o, sc.Variable):
        _upd_variable(h, o, depth)
        return
    if isinstance(o, sc.DataArray):
        h.update(b'DA' + repr(o.name).encode())
        _upd_variable(h, o.data, depth + 1)
        for k in sorted(o.coords.keys(), key=str):
            h.update(b'c' + str(k).encode())
            _upd_variable(h, o.coords[k], depth + 1)
        for k in sorted(o.masks.keys(), key=str):
            h.update(b'm' + str(k).encode())
            _upd_variable(h, o.masks[k], depth + 1)
        return
    if isinstance(o, sc.Dataset):
        h.update(b'DS')
        for k in sorted(o.keys(), key=str):
            h.update(b'i' + str(k).encode())
            _upd(h, o[k], depth + 1)
        for k in sorted(o.coords.keys(), key=str):
            h.update(b'c' + str(k).encode())
            _upd_variable(h, o.coords[k], depth + 1)
        return
    if isinstance(o, sc.DataGroup):
        h.update(b'DG')
        for k in o.keys():
            h.update(b'k' + str(k).encode())
            _upd(h, o[k], depth + 1)
        return
    if isinstance(o, sc.Unit | sc.DType):
        h.update(repr(o).encode())
        return
    if isinstance(o, np.ndarray):
        h.update(b'ND' + repr((o.shape, str(o.dtype))).encode())
        h.update(_np_bytes(o))
        return
    if isinstance(o, np.generic):
        h.update(b'NG' + str(o.dtype).encode() + o.tobytes())
        return
    if isinstance(o, enum.Enum):
        h.update(repr(o).encode())
        return
    if isinstance(o, dict) or (
        hasattr(o, 'keys') and hasattr(o, '__getitem__') and not isinstance(o, type)
    ):
        h.update(b'D' + type(o).__name__.encode())
        try:
            keys = list(o.keys())
        except Exception:  # noqa: BLE001
            h.update(repr(o).encode())
            return
        for k in keys:
            h.update(b'k')
            _upd(h, k if isinstance(k, str | int | tuple) else repr(k), depth + 1)
            try:
                _upd(h, o[k], depth + 1)
            except Exception:  # noqa: BLE001
                h.update(b'<err>')
        return
    if isinstance(o, list | tuple):
        h.update(b'L' + type(o).__name__.encode() + str(len(o)).encode())
        for x in o:
            _upd(h, x, depth + 1)
        return
    if isinstance(o, set | frozenset):
        h.update(b'S')
        h.update(repr(sorted(map(repr, o))).encode())
        return
    if isinstance(o, io.IOBase) or hasattr(o, 'write') and hasattr(o, 'seek'):
        h.update(b'<file>')  # files are exempt: writing to them is their purpose
        return
    if isinstance(o, types.FunctionType | types.BuiltinFunctionType | types.MethodType | type | types.ModuleType):
        h.update(b'F' + getattr(o, '__qualname__', repr(o)).encode())
        return
    if dataclasses.is_dataclass(o) and not isinstance(o, type):
        h.update(b'DC' + type(o).__qualname__.encode())
        for f in dataclasses.fields(o):
            h.update(f.name.encode())
            try:
                _upd(h, object.__getattribute__(o, f.name), depth + 1)
            except AttributeError:
                h.update(b'<unset>')
        extra = getattr(o, '__dict__', None)
        if extra:
            names = {f.name for f in dataclasses.fields(o)}
            for k in sorted(extra):
                if k not in names:
                    h.update(b'x' + k.encode())
                    _upd(h, extra[k], depth + 1)
        return
    # pydantic models
    if hasattr(o, 'model_dump') and hasattr(type(o), 'model_fields'):
        h.update(b'PM' + type(o).__qualname__.encode())
        try:
            _upd(h, o.model_dump(), depth + 1)
        except Exception:  # noqa: BLE001
            h.update(repr(o).encode())
        return
    d = getattr(o, '__dict__', None)
    if d is not None:
        h.update(b'O' + type(o).__qualname__.encode())
        for k in sorted(d):
            h.update(k.encode())
            _upd(h, d[k], depth + 1)
        slots = getattr(type(o), '__slots__', ())
        for k in slots if isinstance(slots, tuple | list) else (slots,):
            if hasattr(o, k):
                h.update(b's' + k.encode())
                _upd(h, getattr(o, k), depth + 1)
        return
    slots = getattr(type(o), '__slots__', None)
    if slots:
        h.update(b'SL' + type(o).__qualname__.encode())
        for k in slots if isinstance(slots, tuple | list) else (slots,):
            if hasattr(o, k):
                h.update(k.encode())
                _upd(h, getattr(o, k), depth + 1)
        return
    h.update(b'R' + repr(o).encode())


def fp(obj) -> str:
    h = _h()
    _upd(h, obj)
    return h.hexdigest()


def describe(o, depth=0):
    """Short JSON-able description for witnesses."""
    if depth > 4:
        return '...'
    if isinstance(o, sc.Variable):
        d = {'dims': list(o.dims), 'shape': list(o.shape), 'unit': str(o.unit), 'dtype': str(o.dtype)}
        if o.bins is None and o.dtype in (sc.DType.float64, sc.DType.float32, sc.DType.int64, sc.DType.int32, sc.DType.vector3, sc.DType.bool):
            vals = np.asarray(o.values).ravel()
            d['values'] = [x.hex() if isinstance(x, float) else x for x in vals[:12].tolist()]
            d['values_repr'] = [repr(x) for x in vals[:12].tolist()]
            if o.variances is not None:
                d['variances'] = np.asarray(o.variances).ravel()[:12].tolist()
        elif o.bins is not None:
            d['nevents'] = int(o.bins.size().sum().value)
        return d
    if isinstance(o, sc.DataArray):
        return {
            'data': describe(o.data, depth + 1),
            'coords': {str(k): describe(v, depth + 1) for k, v in o.coords.items()},
            'masks': list(map(str, o.masks.keys())),
        }
    if isinstance(o, dict):
        return {str(k): describe(v, depth + 1) for k, v in list(o.items())[:20]}
    if isinstance(o, list | tuple):
        return [describe(v, depth + 1) for v in o[:20]]
    if isinstance(o, np.ndarray):
        return {'ndarray': str(o.dtype), 'shape': list(o.shape), 'head': o.ravel()[:12].tolist()}
    if o is None or isinstance(o, bool | int | float | str):
        return o
    return repr(o)[:200]
