"""Reach monitor: which functions, lines and branch arms of the working tree's scippneutron
sources a workload actually executed (sys.monitoring, COVERAGE_ID).

Runtime monitoring says nothing about paths the workload never drives; this observer makes
that statement measurable.  It decides nothing: the numbers go into the evidence file
(``coverage.code_reach``) next to what the property monitors observed, and
``tools/reach_report.py`` prints the functions never entered and the branches that were only
ever taken one way in the files a property is anchored in -- the places where a change could
hide from the workload.

Mechanics: a global ``PY_START`` callback sees every code object once (it returns DISABLE);
for code objects whose file lies in the observed source tree it switches on local ``LINE`` and
``BRANCH`` events.  ``LINE`` callbacks return DISABLE (one report per line); ``BRANCH``
callbacks record the (source offset -> destination offset) arm and stay armed until both arms
of every conditional jump of that code object have been seen.
"""

from __future__ import annotations

import dis
import os
import sys

TOOL = sys.monitoring.COVERAGE_ID
_E = sys.monitoring.events

_COND = ('POP_JUMP_IF_', 'FOR_ITER', 'SEND')


def _is_cond(opname: str) -> bool:
    return opname.startswith('POP_JUMP_IF_') or opname == 'FOR_ITER'


def static_info(code):
    """(executable lines, {branch offset: line}) of one code object (without nested ones)."""
    lines = {ln for _, _, ln in code.co_lines() if ln is not None and ln > 0}
    # the 'def' line of a function only runs when the enclosing scope defines it
    branches = {}
    for ins in dis.get_instructions(code):
        if _is_cond(ins.opname):
            ln = ins.positions.lineno if ins.positions and ins.positions.lineno else -1
            branches[ins.offset] = ln
    return lines, branches


def walk_code(code):
    yield code
    for c in code.co_consts:
        if hasattr(c, 'co_code'):
            yield from walk_code(c)


def key_of(code) -> str:
    return f'{code.co_qualname}@{code.co_firstlineno}'


class Reach:
    def __init__(self, root: str):
        self.root = os.path.realpath(root).rstrip(os.sep) + os.sep
        self.data: dict[str, dict[str, dict]] = {}  # file -> key -> {'lines': set, 'arms': set}
        self._need: dict = {}  # code -> number of branch offsets
        self._active = False

    def start(self):
        mon = sys.monitoring
        try:
            if mon.get_tool(TOOL) is not None:
                return self
            mon.use_tool_id(TOOL, 'rv-reach')
        except ValueError:
            return self
        mon.register_callback(TOOL, _E.PY_START, self._start)
        mon.register_callback(TOOL, _E.LINE, self._line)
        mon.register_callback(TOOL, _E.BRANCH, self._branch)
        mon.set_events(TOOL, _E.PY_START)
        self._active = True
        return self

    def stop(self):
        if not self._active:
            return
        mon = sys.monitoring
        mon.set_events(TOOL, 0)
        for code in list(self._need):
            try:
                mon.set_local_events(TOOL, code, 0)
            except Exception:  # noqa: BLE001
                pass
        mon.free_tool_id(TOOL)
        self._active = False

    # -- callbacks -------------------------------------------------------
    def _entry(self, code):
        fn = os.path.realpath(code.co_filename) if not code.co_filename.startswith(self.root) else code.co_filename
        return self.data.setdefault(fn[len(self.root):], {}).setdefault(key_of(code), {'lines': set(), 'arms': set()})

    def _start(self, code, offset):
        fn = code.co_filename
        if fn.startswith(self.root) and code.co_name != '<module>' and code not in self._need:
            self._entry(code)
            nb = sum(1 for ins in dis.get_instructions(code) if _is_cond(ins.opname))
            self._need[code] = nb
            try:
                sys.monitoring.set_local_events(TOOL, code, _E.LINE | (_E.BRANCH if nb else 0))
            except Exception:  # noqa: BLE001
                pass
        return sys.monitoring.DISABLE

    def _line(self, code, lineno):
        self._entry(code)['lines'].add(lineno)
        return sys.monitoring.DISABLE

    def _branch(self, code, src, dst):
        e = self._entry(code)
        arms = e['arms']
        if (src, dst) not in arms:
            arms.add((src, dst))
            if len(arms) >= 2 * self._need.get(code, 1 << 30):
                # both arms of every conditional jump seen: nothing more to learn here
                try:
                    sys.monitoring.set_local_events(TOOL, code, _E.LINE)
                except Exception:  # noqa: BLE001
                    pass
        return None

    # -- report ----------------------------------------------------------
    def report(self) -> dict:
        return {f: {k: {'lines': sorted(v['lines']), 'arms': sorted(map(list, v['arms']))}
                    for k, v in d.items()} for f, d in self.data.items()}


def merge_reports(reports) -> dict:
    out: dict[str, dict[str, dict]] = {}
    for r in reports:
        for f, d in (r or {}).items():
            for k, v in d.items():
                e = out.setdefault(f, {}).setdefault(k, {'lines': set(), 'arms': set()})
                e['lines'].update(v['lines'])
                e['arms'].update(tuple(a) for a in v['arms'])
    return out


def universe(root: str, relfile: str) -> dict:
    """Static view of one source file: key -> (lines, {offset: line}) for every function body."""
    path = os.path.join(root, relfile)
    with open(path) as f:
        src = f.read()
    top = compile(src, path, 'exec')
    out = {}
    for code in walk_code(top):
        if code.co_name == '<module>':
            continue
        # class bodies run at import time (before observation starts): not part of the universe
        if code.co_flags & 0x02 == 0:  # CO_NEWLOCALS unset -> class body
            continue
        lines, branches = static_info(code)
        lines.discard(code.co_firstlineno)
        out[key_of(code)] = (lines, branches)
    return out


def summarise(root: str, merged: dict, files, detail: int = 12) -> dict:
    """Per anchored file: totals and the unreached parts (capped lists)."""
    res = {}
    for rel in files:
        rel = rel[len('src/'):] if rel.startswith('src/') else rel
        try:
            uni = universe(root, rel)
        except OSError:
            continue
        seen = merged.get(rel, {})
        n_fun = len(uni)
        entered = [k for k in uni if k in seen]
        lt = le = bt = be = lent = 0
        one_sided = []
        never = []
        for k, (lines, branches) in sorted(uni.items(), key=lambda kv: int(kv[0].rsplit('@', 1)[1])):
            lt += len(lines)
            bt += 2 * len(branches)
            if k not in seen:
                never.append(k)
                continue
            s = seen[k]
            lent += len(lines)
            le += len(lines & set(s['lines']))
            arms_by_src = {}
            for src, dst in s['arms']:
                arms_by_src.setdefault(src, set()).add(dst)
            for off, ln in branches.items():
                n = min(2, len(arms_by_src.get(off, ())))
                be += n
                if n < 2:
                    one_sided.append(f'{k.rsplit("@", 1)[0]}:{ln}' + (' (never evaluated)' if n == 0 else ''))
        res[rel] = {
            'functions': n_fun, 'functions_entered': len(entered),
            'lines': lt, 'lines_in_entered_functions': lent, 'lines_executed': le,
            'branch_arms': bt, 'branch_arms_taken': be,
            'functions_never_entered': never[:detail] + ([f'... {len(never) - detail} more'] if len(never) > detail else []),
            'branches_one_sided_or_unreached': one_sided[:detail] + ([f'... {len(one_sided) - detail} more'] if len(one_sided) > detail else []),
        }
    return res
