"""Known findings: mechanism predicates evaluated on violation witnesses.

known_findings.json lists {property, key, status: known|fixed, commit?, what}.
A ``known`` entry turns a violation matched by PREDICATES[key] into a
KNOWN-FINDING line; ``fixed`` entries suppress nothing.  The file is never
written at run time.
"""

from __future__ import annotations

import json
import os

HERE = os.path.dirname(os.path.dirname(os.path.abspath(__file__)))

# key -> predicate(violation dict) ; the predicate looks at v['kind'] and
# v['keys'] (mechanism facts recorded by the monitor), never at random values.
PREDICATES: dict = {}


def predicate(key):
    def deco(f):
        PREDICATES[key] = f
        return f

    return deco


def load_known():
    path = os.path.join(HERE, 'known_findings.json')
    if not os.path.exists(path):
        return []
    with open(path) as f:
        data = json.load(f)
    return data.get('findings', data) if isinstance(data, dict) else data


def match(pid, v, listed):
    for e in listed:
        if e.get('property') != pid or e.get('status') != 'known':
            continue
        pred = PREDICATES.get(e['key'])
        if pred is None:
            continue
        try:
            if pred(v):
                return e['key']
        except Exception:  # noqa: BLE001
            continue
    return None
