"""Known findings: mechanism predicates evaluated on violation witnesses.

known_findings.json lists {property, key, status: known|fixed, commit?, what}.
A ``known`` entry turns a violation matched by PREDICATES[key] into a
KNOWN-FINDING line; ``fixed`` entries suppress nothing.  The file is never
written at run time.
"""

from __future__ import annotations

import json
import os

HERE = os.path.dirname(os.path.dirname(os.path.abspath(__file__)))

# key -> predicate(violation dict) ; the predicate looks at v['kind'] and
# v['keys'] (mechanism facts recorded by the monitor), never at random values.
PREDICATES: dict = {}


def predicate(key):
    def deco(f):
        PREDICATES[key] = f
        return f

    return deco


def _read(path):
    if not os.path.exists(path):
        return []
    with open(path) as f:
        data = json.load(f)
    return data.get('findings', data) if isinstance(data, dict) else data


def load_known():
    out = _read(os.path.join(HERE, 'known_findings.json'))
    # development aid only (never set by registered commands): extra proposals
    extra = os.environ.get('RV_KNOWN_EXTRA')
    if extra:
        out = out + _read(extra)
    return out


def predicates_for(pid):
    """Predicates live next to the monitors: rv.props.<id>.FINDING_PREDICATES."""
    import importlib

    preds = dict(PREDICATES)
    try:
        mod = importlib.import_module(f'rv.props.{pid.lower()}')
        preds.update(getattr(mod, 'FINDING_PREDICATES', {}))
    except Exception:  # noqa: BLE001
        pass
    return preds


def match(pid, v, listed):
    preds = predicates_for(pid)
    for e in listed:
        if e.get('property') != pid or e.get('status') != 'known':
            continue
        pred = preds.get(e['key'])
        if pred is None:
            continue
        try:
            if pred(v):
                return e['key']
        except Exception:  # noqa: BLE001
            continue
    return None
